#!/bin/bash
# seedrun.sh <dir> <label> [check ids...]: confirm a seeded change (suite passes with it, demo fails with it and
# passes without it), then run the named checks (default: all) against that tree with VERIF_REPO.
# The tree is left with the change applied. Results go to /tmp/seed/results/<label>.txt
D=$1; L=$2; shift 2
CHECKS="$@"; [ -z "$CHECKS" ] && CHECKS="C01 C02 C03 C04 C05 C06 C07 C08 C09 C10 C11 C12 C13 C14 C15 C16 C17 C18 C19"
export GOFLAGS=-mod=mod GOPROXY=off GOSUMDB=off GOTOOLCHAIN=local
OUT=/tmp/seed/results/$L.txt; : > $OUT
cd $D || exit 9
demo() {
  if [ -f demo.sh ]; then SH=sh; head -1 demo.sh | grep -q bash && SH=bash; $SH ./demo.sh >/tmp/seed/results/$L.demo.log 2>&1 </dev/null; return $?; fi
  t=$(ls */demo_test.go */*/demo_test.go demo_test.go 2>/dev/null | head -1)
  if [ -n "$t" ]; then tags=""; grep -q "go:build verif" $t && tags="-tags verif"; grep -q Verif $t && tags="-tags verif"; go test $tags -vet=off -count=1 ./$(dirname $t) -run 'Demo' >/tmp/seed/results/$L.demo.log 2>&1; return $?; fi
  echo "no demo found" >/tmp/seed/results/$L.demo.log; return 99
}
git apply --check -R patch.diff 2>/dev/null || { echo "patch not applied?" >> $OUT; }
go build ./... >>$OUT 2>&1 && echo "build_with_patch=ok" >> $OUT || echo "build_with_patch=FAIL" >> $OUT
go test -vet=off -count=1 -skip 'Demo' ./... 2>&1 | grep -v "no test files" | grep -v '^ok' >> $OUT; [ ${PIPESTATUS[0]} -eq 0 ] && echo "suite_with_patch=ok" >> $OUT || echo "suite_with_patch=FAIL" >> $OUT
demo; echo "demo_with_patch_rc=$?" >> $OUT
git apply -R patch.diff && { demo; echo "demo_without_patch_rc=$?" >> $OUT; git apply patch.diff; } || echo "could not revert patch" >> $OUT
git checkout -q go.sum 2>/dev/null
cd /verif
for c in $CHECKS; do
  start=$(date +%s)
  VERIF_REPO=$D ./check $c quick > /tmp/seed/results/$L.$c.log 2>&1 </dev/null; rc=$?
  echo "check $c rc=$rc secs=$(( $(date +%s) - start ))" >> $OUT
done
echo done >> $OUT
