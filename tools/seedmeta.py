#!/usr/bin/env python3
"""seedmeta.py <seed-dir> <label> <dest>: write /verif/seeded/<dest>/meta.json from the agent's meta.json and the
results of tools/seedrun.sh (/tmp/seed/results/<label>*.txt)."""
import json, os, re, sys, glob
src, label, dest = sys.argv[1:4]
V = os.path.dirname(os.path.dirname(os.path.abspath(__file__)))
agent = json.load(open(os.path.join(src, "meta.json")))
res = {}
checks = {}
for path in sorted(glob.glob("/tmp/seed/results/%s*.txt" % label)):
    for line in open(path):
        line = line.strip()
        m = re.match(r"check (C\d+) rc=(\d+)", line)
        if m:
            checks[m.group(1)] = int(m.group(2))
        elif "=" in line and not line.startswith("check"):
            k, v = line.split("=", 1)
            res[k] = v
caught = sorted(c for c, rc in checks.items() if rc == 1)
missed = sorted(c for c, rc in checks.items() if rc == 0)
incon = sorted(c for c, rc in checks.items() if rc not in (0, 1))
meta = {
    "property": agent.get("property"),
    "summary": agent.get("summary"),
    "needs": agent.get("needs"),
    "files": agent.get("files"),
    "demonstration": agent.get("how_demonstrated"),
    "confirmed": {
        "builds_with_change": res.get("build_with_patch") == "ok",
        "existing_suite_passes_with_change": res.get("suite_with_patch") == "ok",
        "demo_fails_with_change": res.get("demo_with_patch_rc") not in (None, "0"),
        "demo_passes_without_change": res.get("demo_without_patch_rc") == "0",
        "how": "tools/seedrun.sh in a scratch worktree of /repo: go build ./..., go test -vet=off -count=1 -skip Demo ./..., the demo with the patch applied and after git apply -R",
    },
    "checks_quick_tier": {"caught_by": caught, "not_caught_by": missed, "inconclusive": incon,
                          "how": "VERIF_REPO=<worktree> ./check <ID> quick (default seed) for every check"},
}
d = os.path.join(V, "seeded", dest)
os.makedirs(d, exist_ok=True)
json.dump(meta, open(os.path.join(d, "meta.json"), "w"), indent=1)
print(dest, "caught by", caught, "incon", incon)
