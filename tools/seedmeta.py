#!/usr/bin/env python3
"""seedmeta.py <seed-dir> <dest> <result-file>... : write /verif/seeded/<dest>/meta.json from the agent's meta.json and
the result files of tools/seedrun.sh given in chronological order (the last one is the current state of the checks)."""
import json, os, re, sys
src, dest = sys.argv[1:3]
files = sys.argv[3:]
V = os.path.dirname(os.path.dirname(os.path.abspath(__file__)))
agent = json.load(open(os.path.join(src, "meta.json")))
res = {}
runs = []
for path in files:
    if not os.path.exists(path):
        continue
    checks = {}
    for line in open(path):
        line = line.strip()
        m = re.match(r"check (C\d+) rc=(\d+)", line)
        if m:
            checks[m.group(1)] = int(m.group(2))
        elif "=" in line and not line.startswith("check"):
            k, v = line.split("=", 1)
            res[k] = v
    if checks:
        runs.append(checks)
def summary(checks):
    return {"caught_by": sorted(c for c, rc in checks.items() if rc == 1),
            "not_caught_by": sorted(c for c, rc in checks.items() if rc == 0),
            "inconclusive": sorted(c for c, rc in checks.items() if rc not in (0, 1))}
merged = {}
for r in runs:
    merged.update(r)
prop = agent.get("property")
first = runs[0].get(prop) if runs else None
meta = {
    "property": prop,
    "summary": agent.get("summary"),
    "needs": agent.get("needs"),
    "files": agent.get("files"),
    "demonstration": agent.get("how_demonstrated"),
    "confirmed": {
        "builds_with_change": res.get("build_with_patch") == "ok",
        "existing_suite_passes_with_change": res.get("suite_with_patch") == "ok",
        "demo_fails_with_change": res.get("demo_with_patch_rc") not in (None, "0"),
        "demo_passes_without_change": res.get("demo_without_patch_rc") == "0",
        "how": "tools/seedrun.sh in a scratch worktree of /repo: go build ./..., go test -vet=off -count=1 -skip Demo ./..., the demo with the patch applied and after git apply -R patch.diff",
    },
    "own_check_first_attempt": {0: "missed", 1: "caught", None: "not run"}.get(first, "inconclusive"),
    "checks_quick_tier_now": summary(merged),
    "how_checked": "VERIF_REPO=<worktree with the change> ./check <ID> quick (default seed); 'first attempt' is the state of the checks before they saw this change",
}
d = os.path.join(V, "seeded", dest)
os.makedirs(d, exist_ok=True)
json.dump(meta, open(os.path.join(d, "meta.json"), "w"), indent=1)
print(dest, prop, "first:", meta["own_check_first_attempt"], "now caught by", meta["checks_quick_tier_now"]["caught_by"])
