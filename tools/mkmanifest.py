#!/usr/bin/env python3
"""Regenerates /verif/MANIFEST.json from the table below (claimed checks) and properties.jsonl."""
import json, os, re
V = os.path.dirname(os.path.dirname(os.path.abspath(__file__)))
props = [json.loads(l) for l in open(os.path.join(V, "properties.jsonl"))]

# id -> (technique, level text, level note)
CLAIMED = {
 "C01": ("property-based differential testing: rapid-generated typed and type-blind sessions, compiled VM vs. an independent reference interpreter",
         "Generated well-typed, terminating sessions (closures, generators, recursion, every statement form in every position) run through parser+compiler+VM and through a definitional interpreter written from the Readme; final value, output and error class are compared per statement in both result modes. Exploration: holds on the cases counted in the evidence.",
         "trusted: harness/ref (reference semantics), the shared parser, rapid; domain flags skip (and count) programs whose meaning the description leaves open"),
 "C02": ("property-based differential testing: generated generator/for-loop sessions with traces vs. the reference's coroutine semantics",
         "Sessions over a generator library (map, filter, zip, chain, take, traced counters, recursive/conditional/nested generators, factories, value-position yield) with compositions to depth 4, zipped loops of unequal length, nested loops, loops in recursive functions and early returns; generators and bodies write a trace, so loop values, accumulators and the interleaving order are compared with the reference in both result modes.",
         "trusted: harness/ref coroutine semantics (iter.Pull per iterator expression); frame-copy dependent programs are flagged and skipped"),
 "C03": ("metamorphic property-based testing on the real VM: one call of a side-effect-free function in 22 dynamic placements (histories with failures, depth sweeps, recycled contexts), plus the reference value",
         "A call of a generated or library pure function (closures created/called/returned, captured variables updated after capture and after deep calls, loops, generators) is evaluated at top level, twice in one expression, in loop bodies, in generators, under recursion depth 0..3000, from callers with 100-400 locals, after loops, failed statements and stack growth; all placements must give the same value, which must equal the reference's.",
         "trusted: printed form as the observation; functions never do I/O by construction"),
 "C04": ("property-based differential testing over a shared name pool + global probes: scoping sessions vs. the reference's own resolver, isolation invariant on the VM alone",
         "Eight names serve as globals, parameters, locals, loop variables and captured variables at once; closures escape directly, in arrays, through an identity function and out of generators; after every statement all globals are probed: a statement that is not a top-level assignment must leave them unchanged (VM only) and every statement must agree with the reference.",
         "trusted: harness/ref name resolution (lexical order, one level of capture); read-before-definition programs flagged and skipped"),
 "C05": ("property-based crash fuzzing: type-blind tree-generated and mutated programs through parser, compiler and VM under recover(); deterministic family over extreme operands; binary script leg; rapid.MakeFuzz leg in thorough",
         "Arbitrary parseable programs (every operator over every literal kind incl. extreme values, undefined names, wrong arities, control statements in every position, token-mutated typed sessions) must compile and end in a value or a documented runtime error in both result modes; any Go panic or undocumented error is a violation; a script of operator/operand products runs through the built binary to catch unrecoverable faults.",
         "trusted: the reference interpreter only as a resource screen (programs it cannot finish are skipped and counted); exit() never generated in process"),
 "C06": ("property-based fuzzing of the front end: token/byte soup, program prefixes, nesting bombs; totality oracle with watchdog; native go fuzz leg in thorough",
         "Every generated text must make lexer and parser return (token bound + 10 s watchdog), without panic, with an error span inside the input and a well-formed caret display; broken statements with a visible side effect are run through the built binary in all three modes and must execute nothing; nesting up to 10^6 goes through the binary.",
         "trusted: the watchdog margin (10 s vs. microseconds); REPL mode is fed printable text only (its third-party line editor interprets control bytes)"),
 "C07": ("property-based round-trip testing: random syntax trees printed by a grammar-derived printer in two layouts and parsed back",
         "Random trees of every parser-producible shape are printed with minimal parentheses/braces by the documented precedence table and again with redundant parentheses, braces, blanks, blank lines and comments; both texts must parse to exactly the tree.",
         "trusted: harness/gen/print.go as the documented grammar; trees limited to non-negative number literals and backslash-free strings"),
 "C08": ("metamorphic property-based testing with fault injection: failing sessions vs. failure-free twin sessions on fresh VMs and as scripts through the built binary, plus reference and machine-state hooks",
         "Failure carriers (17 runtime error classes x 16 dynamic positions incl. call depth to 300, loop bodies, suspended/nested generators, child contexts, zipped iterators; parse errors; bursts) are mixed with observers; the twin session drops the carrier or replaces the failing statement/generator by one that stops at the same point; every other statement must agree between the two sessions and with the reference, and the machine must be clean after each failure.",
         "trusted: the syntactic twin construction (return 0 at top level unwinds without error keeping globals - confirmed by experiment)"),
 "C09": ("property-based testing with state hooks: machine residue after every generated statement in both result modes; metamorphic growth pairs (n vs n+600 iterations)",
         "After every statement of generated typed sessions (finished normally, through return, or with a runtime error) operand stack, frame stack, closure stack and child contexts must be empty and the main context at the end of the code; loop programs with bodies ending in every statement form are run with n and n+600 iterations and must reach the same stack high-water mark over all memories.",
         "trusted: the verif hooks (read-only accessors, growStack observer)"),
 "C10": ("property-based testing with probes: variable-pool sessions (snapshot invariant + reference) and a state machine on the value API",
         "Sessions over 3-8 array/string variables apply literals (constant prefix + computed elements, in loops and recursive functions), concatenation, slicing, nesting, calls, iteration and capture; after every statement all variables are probed and must render as before (except the assigned one) and as in the reference; on the API level Arith/Index/array building are checked against renderings taken at creation.",
         "trusted: printed form as the observation; the reference copies on every slice/concatenation"),
 "C11": ("property-based testing of the value API: generated operand tuples vs. the reference value model, exhaustive kind pairings, algebraic laws",
         "Every exported operator of types/value is compared with an independent value model on boundary and random operands of every kind; all 7x7 kind pairings per operator are enumerated in every run; symmetry/negation/consistency laws and the slicing laws are checked directly on the implementation.",
         "trusted: harness/ref/values.go as the documented algebra; shifts pinned only for counts 0..63 on non-negative left operands"),
 "C12": ("metamorphic property-based testing on the real VM: one generated expression/statement in ~35 syntactic placements, plus pair rewrites (increment forms, same operand, negated conditions, evaluation through temporaries)",
         "A generated expression or statement is embedded in every code-generation context (discarded, used, function tail, loop bodies, call argument, operand depths, index position, ...) and all placements must agree on value, output and error class; the rewrites named in the property (x = x + 1 forms, e op e, negated conditions) must agree too.",
         "trusted: nothing but the implementation itself (no reference); placements that change the program by definition (assigning nil, moving a global assignment into a function) are excluded"),
 "C13": ("model-based testing: rapid state machine on the transactional lexer; random combinator expressions vs. an independent ordered-choice (PEG) recogniser",
         "Operation sequences Next/Snapshot/Rollback/Commit are compared after every step with a cursor model over a fresh scan; random parser expressions over all thirteen combinators are compared with an ordered-choice recogniser on accept/reject, result list and position after success.",
         "trusted: the recogniser in props/c13_test.go; combinator preconditions documented in combinator.go are respected by construction"),
 "C14": ("property-based testing of the lexer: constructive lexeme lists in two layouts, differential against a regular-expression tokenizer, structural invariants; native go fuzz leg in thorough",
         "Lexeme lists rendered with random gaps/comments must come back as exactly those lexemes; arbitrary strings over the alphabet must be accepted exactly when an independent regex tokenizer accepts, with equal kinds, spans, and the ordering/gap/maximal-run/EOL/EOF invariants.",
         "trusted: the regex tokenizer in props/c14_test.go; string token text compared after the documented \\n substitution"),
 "C15": ("exhaustive boundary enumeration + property-based testing of the instruction codec and function values; generated programs around the 2^15/2^16 limits (counts, jump distances, exact boundaries), refusal sessions through the binary",
         "All 128 opcodes x 3 slots x 8 kinds x boundary addresses round-trip, addresses outside the signed 16 bit field are refused, three operands OR-ed together and patched decode independently, function values round-trip; programs with ~16k-70k constants, body statements, locals, parameters or session statements are refused at compile time (segments untouched) or give the closed-form value.",
         "trusted: the field layout read off bytecode.go; sizes explored to ~70000"),
 "C16": ("property-based differential testing through the built binary: file mode, REPL over a pipe and -eval vs. transcripts computed by the reference statement by statement",
         "Generated scripts with layout stress (braces, brackets, quotes, semicolons inside strings and comments, multi-line strings/arrays/blocks, blank and comment lines, missing final line break, exit(n)) must print in file mode the concatenated output and in REPL mode banner + output + value display per statement; self-contained statements must agree in all three modes incl. -eval.",
         "trusted: the reference; REPL only over a pipe with printable text; scripts with runtime errors are left to C08"),
 "C17": ("property-based testing of the built-ins: closed forms computed in Go + reference in process; read() sequences through the built binary",
         "toa/write agreement, aton(toa(n)) == n for boundary/random ints and finite floats, fromto/elems/indices against closed forms, wrong types and arities; random line lists (arbitrary bytes, lengths across the 4096 byte buffer, optional unterminated last line) are piped to scripts calling read() k times directly, in loops, in generators and through functions.",
         "trusted: whether read() keeps the line break is not part of the contract (both accepted); finite floats only"),
 "C18": ("model-based testing: operation histories on memory.Type against a slice model, plus generated wide-frame/deep-recursion programs with closed-form results",
         "Histories following the VM's calling protocol (push/pop/call/ret/set/capture/clone with and without recycled target/switch/destroy/reset, frame widths across every 128-slot boundary) are checked after every step against plain Go slices; programs with 100-400 locals and recursion to 24000 are checked against closed forms and the reference.",
         "trusted: the protocol read off vm.go; recursion explored to a stated depth, not to memory exhaustion"),
 "C19": ("property-based differential testing of error reports: printed RUNTIME ERROR reports parsed and compared with the reference's report model",
         "For every failing statement of fault-injected and typed sessions the printed report must name the class, mark exactly one instruction whose opcode belongs to the failing operation, show in every listing line the disassembly its instruction word decodes to, list the operand values it saw, and list per coroutine (failing one up to main) the active calls innermost first with call-site names and current parameter values.",
         "trusted: the report model in harness/ref; accumulator-form instructions compared on the explicit operand only; reports with ambiguous printed values (line breaks, ';', 'arg[') not compared"),
}

def sh(cmd):
    import subprocess
    return subprocess.run(cmd, shell=True, capture_output=True, text=True).stdout.strip()

hook_commit = sh("git -C /repo log --format=%h --grep='^verif:' | tr '\\n' ' '").split()

m = {
 "version": 1,
 "setup_cmd": "./check --build",
 "hooks": {
  "guard": "verif",
  "enable": "Go build tag: every check builds /repo with `-tags verif` (go test -c -tags verif in /verif/harness; go.mod replaces github.com/paulsonkoly/calc => /repo)",
  "baseline_off_cmd": "cd /repo && GOFLAGS=-mod=mod GOPROXY=off GOSUMDB=off GOTOOLCHAIN=local go test -vet=off -count=1 ./...",
  "source_commits": hook_commit,
  "add_only": True,
 },
 "engines": [{"name": "harness", "path": "/verif/harness", "serves_properties": sorted(CLAIMED),
              "kind_free_text": "Go test binary (pgregory.net/rapid v1.3.0 properties + native go fuzz targets) with a reference interpreter, metamorphic twins and API models; driven by /verif/check (python3)"}],
 "checks": [],
 "notes": "Exit 0 = held on everything explored / 1 = VIOLATION line / 2 = inconclusive (build failure, safety timeout). VERIF_SEED selects the rapid seed (0 remapped). Regression cases in /verif/regress run first in every tier.",
 "not_applicable": [],
}
for p in props:
    pid = p["id"]
    if pid in CLAIMED:
        tech, text, note = CLAIMED[pid]
        m["checks"].append({
          "property_id": pid,
          "quick_cmd": "./check %s quick" % pid,
          "thorough_cmd": "./check %s thorough" % pid,
          "evidence_file": "/verif/evidence/%s.json" % pid,
          "replay_cmd_template": "./check %s --replay {path}" % pid,
          "engine": "harness",
          "level_claimed": {"category": "exploration", "text": text, "design_ref": "DESIGN.md §5 " + pid},
          "level_note": note,
          "technique": tech,
        })
    else:
        m["not_applicable"].append({"property_id": pid, "reason": "designed in DESIGN.md §5 (property-based check), harness not landed yet in this session"})
json.dump(m, open(os.path.join(V, "MANIFEST.json"), "w"), indent=1)
print("claimed", sorted(CLAIMED))
