#!/usr/bin/env python3
"""mutate.py <n> <seed> [-j N]: a small mutation campaign against the checks.

Draws n single-site mutants of calc's source (operator swaps, off-by-one constants, negated or
fixed conditions, deleted simple statements) from a fixed list of files, each in its own scratch
worktree of /repo's HEAD under /tmp/mut.  A mutant that does not build or that the project's own
test suite rejects is discarded.  The others are run against the quick checks (the ones most
likely to see the file first) until one reports a VIOLATION.  Survivors are listed with their diff
in /tmp/mut/report-<seed>.txt for triage (many are equivalent mutants).  Nothing is written to
/repo or to /verif except .work/alt-* scratch, which is removed.
"""
import hashlib, os, random, re, subprocess, sys
from concurrent.futures import ThreadPoolExecutor

V = os.path.dirname(os.path.dirname(os.path.abspath(__file__)))
ENV = dict(os.environ, GOFLAGS="-mod=mod", GOPROXY="off", GOSUMDB="off", GOTOOLCHAIN="local")
FILES = {
    "memory/memory.go": "C18 C01 C02 C03 C04 C09 C08 C05 C19 C12",
    "vm/vm.go": "C01 C02 C05 C09 C08 C19 C17 C03 C04 C12 C18 C10",
    "types/node/bytecoder.go": "C01 C12 C02 C09 C05 C15 C19 C04 C03 C10 C08",
    "types/node/strewriter.go": "C04 C18 C01 C03 C02 C05",
    "types/node/repl.go": "C16 C08 C06 C15 C19",
    "types/node/hascaller.go": "C01 C12",
    "types/value/value.go": "C11 C10 C17 C01 C19 C15 C05",
    "types/bytecode/bytecode.go": "C15 C01 C19",
    "lexer/states.go": "C14 C13 C06 C07 C16",
    "lexer/lexer.go": "C14 C13 C06 C07",
    "lexer/transaction.go": "C13 C07 C06",
    "combinator/combinator.go": "C13 C07 C06",
    "parser/parser.go": "C07 C06 C01 C12",
    "parser/transformer.go": "C07 C01 C06",
    "builtin/builtin.go": "C17 C02 C01",
    "cmd/calc/calc.go": "C16 C06 C08",
}
ALL = "C01 C02 C03 C04 C05 C06 C07 C08 C09 C10 C11 C12 C13 C14 C15 C16 C17 C18 C19".split()

SWAPS = [(r" < ", " <= "), (r" <= ", " < "), (r" > ", " >= "), (r" >= ", " > "), (r" == ", " != "), (r" != ", " == "),
         (r" && ", " || "), (r" \|\| ", " && "), (r" \+ 1\b", " + 2"), (r" - 1\b", " - 2"), (r" \+ 1\b", ""), (r" - 1\b", ""),
         (r"\+\+$", "--"), (r" \+ ", " - "), (r" - ", " + "), (r"\[0\]", "[1]"), (r":= 0$", ":= 1"), (r"= 0$", "= 1"),
         (r"\btrue\b", "false"), (r"\bfalse\b", "true"), (r"if !", "if "), (r"len\((\w+)\)-1", r"len(\1)"), (r"\[:(\w+)\]", r"[:\1+1]")]


def sites(path, text):
    out = []
    lines = text.split("\n")
    infunc = False
    for i, ln in enumerate(lines):
        st = ln.strip()
        if st.startswith("func "):
            infunc = True
        if not infunc or st.startswith("//") or not st or "verif" in st.lower():
            continue
        code = ln.split("//")[0] if '"' not in ln else ln
        for pat, rep in SWAPS:
            for m in re.finditer(pat, code):
                new = code[:m.start()] + m.expand(rep) + code[m.end():]
                out.append((i, new, "%s -> %s" % (pat, rep)))
        m = re.match(r"^(\s*)if (.+) \{$", code)
        if m and " := " not in m.group(2):
            out.append((i, "%sif !(%s) {" % (m.group(1), m.group(2)), "negate condition"))
        # delete a simple statement (assignment or call on one line)
        if re.match(r"^\s+[\w.\[\]\*]+(\(.*\)| (=|\+=|-=) .+|\+\+|--)$", code) and not st.startswith(("return", "defer", "go ", "case", "default")):
            out.append((i, re.match(r"^\s*", code).group(0) + "_ = 0 // deleted", "delete statement"))
    return out


def sh(cmd, cwd, timeout=900):
    try:
        p = subprocess.run(cmd, cwd=cwd, env=ENV, shell=True, stdout=subprocess.PIPE, stderr=subprocess.STDOUT, timeout=timeout)
        return p.returncode, p.stdout.decode("utf-8", "replace")
    except subprocess.TimeoutExpired:
        return 124, "timeout"


def one(k, path, line, new, what):
    w = "/tmp/mut/w%d" % k
    sh("git -C /repo worktree remove --force %s 2>/dev/null; rm -rf %s" % (w, w), "/")
    rc, out = sh("git -C /repo worktree add -q --detach %s HEAD" % w, "/")
    if rc:
        return k, "setup-failed", out
    try:
        f = os.path.join(w, path)
        lines = open(f).read().split("\n")
        old = lines[line]
        lines[line] = new
        open(f, "w").write("\n".join(lines))
        desc = "%s:%d %s\n-%s\n+%s" % (path, line + 1, what, old, new)
        rc, out = sh("go build ./...", w)
        if rc:
            return k, "nobuild", desc
        rc, out = sh("go test -vet=off -count=1 ./...", w, 600)
        if rc:
            return k, "suite", desc
        order = FILES[path].split()
        order += [c for c in ALL if c not in order]
        tried = []
        for c in order:
            rc, out = sh("VERIF_REPO=%s %s/check %s quick" % (w, V, c), V, 1500)
            tried.append("%s=%d" % (c, rc))
            if rc == 1:
                return k, "caught:" + c, desc + "\n" + " ".join(tried)
        return k, "SURVIVED", desc + "\n" + " ".join(tried)
    finally:
        sh("git -C /repo worktree remove --force %s" % w, "/")
        tag = hashlib.sha1(w.encode()).hexdigest()[:10]
        sh("rm -rf %s/.work/alt-%s" % (V, tag), "/")


def main():
    n, seed = int(sys.argv[1]), int(sys.argv[2])
    jobs = int(sys.argv[sys.argv.index("-j") + 1]) if "-j" in sys.argv else 4
    rnd = random.Random(seed)
    pool = []
    for path in FILES:
        text = open(os.path.join("/repo", path)).read()
        for (i, new, what) in sites(path, text):
            pool.append((path, i, new, what))
    rnd.shuffle(pool)
    pick = pool[:n]
    os.makedirs("/tmp/mut", exist_ok=True)
    rep = open("/tmp/mut/report-%d.txt" % seed, "w")
    print("sites %d, running %d" % (len(pool), len(pick)), file=rep, flush=True)
    counts = {}
    with ThreadPoolExecutor(jobs) as ex:
        futs = [ex.submit(one, k, *m) for k, m in enumerate(pick)]
        for fu in futs:
            k, verdict, desc = fu.result()
            key = verdict.split(":")[0]
            counts[key] = counts.get(key, 0) + 1
            print("== mutant %d: %s\n%s\n" % (k, verdict, desc), file=rep, flush=True)
    print("summary", counts, file=rep, flush=True)


if __name__ == "__main__":
    main()
