#!/usr/bin/env python3
"""seedtable.py: rewrite the table of planted changes in DESIGN.md section 9 from seeded/*/meta.json."""
import glob, json, os, re
V = os.path.dirname(os.path.dirname(os.path.abspath(__file__)))
rows = []
stats = {}
for d in sorted(glob.glob(os.path.join(V, "seeded", "C*-r*")), key=lambda p: (p.rsplit("-r", 1)[1], p)):
    m = json.load(open(os.path.join(d, "meta.json")))
    name = os.path.basename(d)
    s = " ".join((m.get("summary") or "").split())
    if len(s) > 230:
        s = s[:227] + "..."
    s = s.replace("|", "\\|")
    now = ", ".join(m["checks_quick_tier_now"]["caught_by"]) or "—"
    rows.append("| %s | %s | %s | %s |" % (name, m["own_check_first_attempt"], now, s))
    r = name.rsplit("-r", 1)[1]
    st = stats.setdefault(r, [0, 0, 0])
    st[0] += 1
    st[1] += m["own_check_first_attempt"] == "caught"
    st[2] += bool(m["checks_quick_tier_now"]["caught_by"])
p = os.path.join(V, "DESIGN.md")
s = open(p).read()
head = "| change | first attempt | caught now by | what was changed |\n|---|---|---|---|\n"
i = s.index(head) + len(head)
j = i
while s[j:].startswith("|") or s[j:].startswith("\n|"):
    j = s.index("\n", j + 1) + 1 if s[j] == "|" else j + 1
s = s[:i] + "\n".join(rows) + "\n" + s[j:]
open(p, "w").write(s)
for r, st in sorted(stats.items()):
    print("round", r, "changes", st[0], "caught first", st[1], "caught now", st[2])
