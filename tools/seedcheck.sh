#!/bin/bash
# seedcheck.sh <seed-id> [check ids...]: apply /verif/seeded/<seed-id>/patch.diff to a scratch worktree of /repo's
# HEAD, run the named quick checks (default: the seed's own property) against it, remove the worktree.
# Prints "<seed-id> <check> rc=<0|1|2>" per check; rc=1 means the check reports the change.
S=$1; shift
V=$(cd "$(dirname "$0")/.." && pwd)
P=$(python3 -c "import json,sys;print(json.load(open('$V/seeded/$S/meta.json'))['property'])")
CHECKS="$@"; [ -z "$CHECKS" ] && CHECKS=$P
W=$(mktemp -d /tmp/seedcheck.XXXXXX); rmdir $W
git -C /repo worktree add -q --detach $W HEAD || exit 9
if ! git -C $W apply $V/seeded/$S/patch.diff 2>/dev/null && ! git -C $W apply --3way $V/seeded/$S/patch.diff 2>/dev/null; then
  echo "$S patch does not apply to HEAD"; git -C /repo worktree remove --force $W; exit 8
fi
for c in $CHECKS; do
  VERIF_REPO=$W $V/check $c quick > /tmp/seedcheck.$S.$c.log 2>&1 </dev/null
  echo "$S $c rc=$?"
done
git -C /repo worktree remove --force $W
rm -rf $V/.work/alt-$(python3 -c "import hashlib;print(hashlib.sha1(b'$W').hexdigest()[:10])")
