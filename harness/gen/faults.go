package gen

import (
	"fmt"
	"strings"

	"pgregory.net/rapid"
)

// Sessions with injected failures (properties C08 and C19): statements whose
// evaluation raises a runtime error of a chosen class at a chosen dynamic
// position, mixed with statements that observe the session afterwards. Every
// carrier comes with its failure-free twin.

// FaultPrelude defines the functions the carriers use. The error class is
// selected by an argument, so the definitions are the same in a session and in
// its twin.
var FaultPrelude = []string{
	"id = (z) -> z",
	"sq = (x) -> x * x",
	"boom = (c, k) -> {\n" +
		"if c == 1 return nothingx + k\n" +
		"if c == 2 return k + \"a\"\n" +
		"if c == 3 return k / 0\n" +
		"if c == 4 return k % 0\n" +
		"if c == 5 return [1, 2][k + 5]\n" +
		"if c == 6 return id(k, k)\n" +
		"if c == 7 return aton(\"x\")\n" +
		"if c == 8 {\nif k 1\n}\n" +
		"if c == 9 return k(1)\n" +
		"if c == 10 {\nzz = nothingx\n}\n" +
		"if c == 11 return read()\n" +
		"if c == 12 return #k\n" +
		"if c == 13 return \"abc\"[k:k + 9]\n" +
		"if c == 14 return (k * 2 + 1) * (nothingx - 3)\n" +
		"if c == 15 return [k, k + 1] == [k, nothingx]\n" +
		"if c == 16 {\nwhile k + 1 2\n}\n" +
		"if c == 17 return !k\n" +
		"k\n}",
	"down = (n, c, k) -> if n <= 0 boom(c, k) else 1 + down(n - 1, c, k)",
	"gfail = (j, c, k) -> {\ni = 0\nwhile i < 5 {\nif i == j boom(c, k)\nyield i\ni = i + 1\n}\n}",
	"gstop = (j) -> {\ni = 0\nwhile i < 5 {\nif i == j return 0\nyield i\ni = i + 1\n}\n}",
	"map = (f, it) -> for e <- it() yield f(e)",
	"app = (f, a, b) -> f(a, b)",
	"mkboom = (c, k) -> () -> boom(c, k)",
	"rebind = (c, p) -> {\np = p + 1\nq = [p, p]\nboom(c, p)\n}",
	"inloop = (j, c, k) -> {\ns = 0\nfor i <- fromto(0, 5) {\nif i == j boom(c, k)\ns = s + i\n}\ns\n}",
	"outer = (j, c, k) -> {\nt = [j]\nfor v <- gfail(j, c, k) t = t + [v]\nt\n}",
	wideOuter("woutera", 123), // 3 parameters + 123 locals + t + the loop variable: 128 slots, the size of a fresh iterator stack
	wideOuter("wouterb", 140),
	"tagged = (t, c, k) -> boom(c, k)",
	"gtagged = (t, j, c, k) -> for v <- gfail(j, c, k) yield [t, v]",
	"sum = (n) -> {\ns = 0\nfor i <- fromto(0, n) s = s + i\ns\n}",
	"counter = (n) -> {\nc = 0\ninc = () -> c + 1\ni = 0\nwhile i < n {\nc = inc()\ni = i + 1\n}\nc\n}",
	"cnd = (i, j, c, k) -> if i == j boom(c, k) else i",
	"whilefn = (j, c, k) -> {\ni = 0\nwhile cnd(i, j, c, k) < 4 i = i + 1\ni\n}",
	"whilegen = (j, c, k) -> {\ni = 0\nwhile cnd(i, j, c, k) < 4 {\nyield i\ni = i + 1\n}\n}",
	"acc = []",
	"ga = 0",
	"gb = 0",
}

// FaultClasses is the number of error classes boom knows (1..FaultClasses).
const FaultClasses = 17

// Carrier is one failing statement with its failure-free twin.
type Carrier struct {
	Stmt  string
	Twin  string // "" = the statement is dropped in the twin session
	Where string // dynamic position of the failure
	Parse bool   // the statement fails to parse instead of failing at run time
	Deep  bool   // the failure is at dynamic depth >= 2 (call, loop or generator nesting)
}

// FaultGen generates the sessions.
type FaultGen struct {
	T *rapid.T
}

func (g *FaultGen) pick(n int) int {
	if n <= 1 {
		return 0
	}
	return rapid.IntRange(0, n-1).Draw(g.T, "f")
}

var rawFailures = []string{"1 / 0", "nothingx + 1", "zz = nothingx", "if 1 2", "7 % 0", "[1, 2][5]", "id(1, 2)", "aton(\"x\")", "1 + \"a\"", "while \"s\" 1",
	"nothingx()", "ga(1)", "\"abc\"[2:9]", "#5", "(ga + 1) * (nothingx + 2)", "zz = [1, 2][ga + 7]", "ga = ga + \"s\"", "if !nothingx 1", "read()", "-\"s\""}

var parseFailures = []string{"\"unterminated", "1 +", ") (", "{\nga = 1\n", "x = ", "if", "[1, 2", "99999999999999999999", "ga = = 1", "for x <- ", "1 $ 2", "else 3", "(a, 1) -> a", "}"}

// ReaderSafeFailures are one-line statements that fail to parse and open no
// bracket, brace or string that the statement reader of the binary would keep
// open across lines (they may close more than they open).
var ReaderSafeFailures = []string{"1 +", ") (", "x = ", "if", "ga = = 1", "for x <- ", "1 $ 2", "else 3", "(a, 1) -> a", "}", "vals = [1, 2, 3]]", "gb = (1 + 2))", "]", ")",
	"99999999999999999999", "{ ga = 1 }}", "sum(1))", "acc = acc + [1]]]", "}}", "ga = 1 }"}

// ReaderSafe reports whether s is one of ReaderSafeFailures.
func ReaderSafe(s string) bool {
	for _, f := range ReaderSafeFailures {
		if f == s {
			return true
		}
	}
	return false
}

// wideOuter is outer with n more locals: the frame that a loop's iterator
// context copies is as wide as or wider than a fresh iterator stack.
func wideOuter(name string, n int) string {
	var sb strings.Builder
	sb.WriteString(name + " = (j, c, k) -> {\n")
	for i := 0; i < n; i++ {
		fmt.Fprintf(&sb, "w%s = %d\n", string(rune('a'+i/26))+string(rune('a'+i%26)), i)
	}
	sb.WriteString("t = [j]\nfor v <- gfail(j, c, k) t = t + [v]\nt\n}")
	return sb.String()
}

// richValues are argument values whose rendering in an error report meets
// every rule of the abbreviation: many bytes in few characters, exactly at the
// limits, nested, non-scalar.
var richValues = []string{"\"日本語のテキストです\"", "\"ééééééééééééé\"", "\"aéééééééééé\"", "\"twenty five ascii letters\"", "\"exactly twenty chars\"", "\"seventeen chars ok\"",
	"[\"日本語日本語\", 1]", "[1, 2, 3, 4, 5, 6, 7, 8, 9, 10, 11, 12]", "1.5", "true", "[[1, [2]], \"x\"]", "sum", "\"\"", "[]", "(0.0 / 0.0)", "9223372036854775807", "\"semi;colon arg[1]: x\""}

// Carrier generates one failing statement.
func (g *FaultGen) Carrier() Carrier {
	c := 1 + g.pick(FaultClasses)
	k := g.pick(9)
	j := g.pick(5)
	boom := fmt.Sprintf("boom(%d, %d)", c, k)
	switch g.pick(25) {
	case 23:
		return Carrier{Stmt: fmt.Sprintf("ga = tagged(%s, %d, %d)", richValues[g.pick(len(richValues))], c, k), Where: "call depth 2, below a call with a rich argument", Deep: true}
	case 24:
		rv := richValues[g.pick(len(richValues))]
		return Carrier{Stmt: fmt.Sprintf("for v <- gtagged(%s, %d, %d, %d) acc = acc + [v]", rv, j, c, k),
			Twin: fmt.Sprintf("for v <- gstop(%d) acc = acc + [[%s, v]]", j, rv), Where: "in a generator below a generator with a rich argument", Deep: true}
	case 21, 22:
		return Carrier{Stmt: ReaderSafeFailures[g.pick(len(ReaderSafeFailures))], Where: "parse", Parse: true}
	case 16: // below a call in a while condition, at its j-th evaluation (top level, discarded loop)
		return Carrier{Stmt: fmt.Sprintf("{\nzi = 0\nwhile cnd(zi, %d, %d, %d) < 4 zi = zi + 1\n}", j, c, k),
			Twin: fmt.Sprintf("{\nzi = 0\nwhile zi < %d zi = zi + 1\n}", j), Where: fmt.Sprintf("in a while condition at evaluation %d", j), Deep: true}
	case 17: // the same in a value-producing while inside a function
		return Carrier{Stmt: fmt.Sprintf("gb = whilefn(%d, %d, %d)", j, c, k), Where: "in a while condition inside a function", Deep: true}
	case 18: // the same inside a generator driven by a loop
		return Carrier{Stmt: fmt.Sprintf("for v <- whilegen(%d, %d, %d) acc = acc + [v]", j, c, k),
			Twin: fmt.Sprintf("for v <- gstop(%d) acc = acc + [v]", j), Where: "in a while condition inside a generator", Deep: true}
	case 19, 20: // a block that binds functions to globals and then fails: the functions stay usable
		n := g.pick(50)
		return Carrier{Stmt: fmt.Sprintf("{\nzf = (n) -> n + %d\nzg = (s) -> \"hello \" + s + toa(%d)\nzh = () -> (m) -> m * %d\n%s\ngb = 7\n}", n, n, n+2, boom),
			Twin: fmt.Sprintf("{\nzf = (n) -> n + %d\nzg = (s) -> \"hello \" + s + toa(%d)\nzh = () -> (m) -> m * %d\nreturn 0\ngb = 7\n}", n, n, n+2), Where: "in a block after binding functions to globals"}
	case 0:
		return Carrier{Stmt: rawFailures[g.pick(len(rawFailures))], Where: "top level"}
	case 1:
		return Carrier{Stmt: parseFailures[g.pick(len(parseFailures))], Where: "parse", Parse: true}
	case 2:
		return Carrier{Stmt: boom, Where: "call depth 1"}
	case 3:
		n := []int{1, 2, 5, 40, 129, 300, 1025, 4097, 20000}[g.pick(9)] // past 1k, 4k and 16k frames as well: thresholds a stack policy might use
		return Carrier{Stmt: fmt.Sprintf("ga = 1 + down(%d, %d, %d)", n, c, k), Where: fmt.Sprintf("call depth %d", n+1), Deep: true}
	case 4:
		return Carrier{Stmt: fmt.Sprintf("app(boom, %d, %d)", c, k), Where: "through a parameter holding a function", Deep: true}
	case 5:
		return Carrier{Stmt: fmt.Sprintf("{\nzb = mkboom(%d, %d)\nga = ga + 1\nzb()\ngb = gb + 1\n}", c, k),
			Twin: fmt.Sprintf("{\nzb = mkboom(%d, %d)\nga = ga + 1\nreturn 0\ngb = gb + 1\n}", c, k), Where: "through a closure, in a block", Deep: true}
	case 6:
		return Carrier{Stmt: fmt.Sprintf("rebind(%d, %d)", c, k), Where: "after reassigning a parameter", Deep: true}
	case 7:
		return Carrier{Stmt: fmt.Sprintf("{\nga = %d\nwrite(\"in \")\n%s\ngb = %d\n}", k, boom, k+1),
			Twin: fmt.Sprintf("{\nga = %d\nwrite(\"in \")\nreturn 0\ngb = %d\n}", k, k+1), Where: "in a block"}
	case 8:
		return Carrier{Stmt: fmt.Sprintf("for v <- gfail(%d, %d, %d) acc = acc + [v]", j, c, k),
			Twin: fmt.Sprintf("for v <- gstop(%d) acc = acc + [v]", j), Where: fmt.Sprintf("in a generator at resume %d", j), Deep: true}
	case 9:
		return Carrier{Stmt: fmt.Sprintf("for i <- fromto(0, 5) {\nacc = acc + [i]\nif i == %d %s\nga = i\n}", j, boom),
			Twin: fmt.Sprintf("for i <- fromto(0, 5) {\nacc = acc + [i]\nif i == %d return 0\nga = i\n}", j), Where: fmt.Sprintf("in a loop body at iteration %d", j), Deep: true}
	case 10:
		return Carrier{Stmt: fmt.Sprintf("for v <- map(sq, () -> gfail(%d, %d, %d)) acc = acc + [v]", j, c, k),
			Twin: fmt.Sprintf("for v <- map(sq, () -> gstop(%d)) acc = acc + [v]", j), Where: "in a nested generator", Deep: true}
	case 11:
		return Carrier{Stmt: fmt.Sprintf("for v <- map((e) -> if e == %d %s else e, () -> fromto(0, 5)) acc = acc + [v]", j, boom),
			Twin: fmt.Sprintf("for v <- map((e) -> e, () -> fromto(0, %d)) acc = acc + [v]", j), Where: "in a map-style body running in a child context", Deep: true}
	case 12:
		return Carrier{Stmt: fmt.Sprintf("for a, b <- fromto(0, 5), gfail(%d, %d, %d) acc = acc + [a, b]", j, c, k),
			Twin: fmt.Sprintf("for a, b <- fromto(0, 5), gstop(%d) acc = acc + [a, b]", j), Where: "in the second iterator of a zip", Deep: true}
	case 13:
		return Carrier{Stmt: fmt.Sprintf("if %s == 1 ga = 1", boom), Where: "inside a condition"}
	case 14:
		return Carrier{Stmt: fmt.Sprintf("{\nzi = 0\nwhile zi < 5 {\nzi = zi + 1\nif zi == %d %s\nacc = acc + [zi]\n}\n}", j+1, boom),
			Twin: fmt.Sprintf("{\nzi = 0\nwhile zi < 5 {\nzi = zi + 1\nif zi == %d return 0\nacc = acc + [zi]\n}\n}", j+1), Where: "in a top-level while body", Deep: true}
	default:
		switch g.pick(4) {
		case 0:
			return Carrier{Stmt: fmt.Sprintf("gb = inloop(%d, %d, %d)", j, c, k), Where: "in a loop inside a function", Deep: true}
		case 1:
			return Carrier{Stmt: fmt.Sprintf("gb = woutera(%d, %d, %d)", j, c, k), Where: "in a generator consumed inside a function with a 128 slot frame", Deep: true}
		case 2:
			return Carrier{Stmt: fmt.Sprintf("gb = wouterb(%d, %d, %d)", j, c, k), Where: "in a generator consumed inside a function with a wide frame", Deep: true}
		}
		return Carrier{Stmt: fmt.Sprintf("gb = outer(%d, %d, %d)", j, c, k), Where: "in a generator consumed inside a function", Deep: true}
	}
}

var observers = []string{
	"sum(6)", "counter(4)", "[ga, gb]", "acc", "for v <- gstop(3) acc = acc + [v * 2]", "ga = ga + 1", "gb = sum(3) + ga",
	"for a, b <- fromto(0, 3), elems(\"xyz\") acc = acc + [b]", "down(30, 0, 7)", "boom(0, 3)", "{\nzc = mkboom(0, 9)\nzc()\n}",
	"for v <- map(sq, () -> fromto(0, 4)) write(toa(v) + \" \")", "inloop(9, 0, 1)", "outer(9, 0, 1)", "woutera(9, 0, 1)", "wouterb(2, 0, 1)", "write(toa(acc) + \"\\n\")", "acc = acc[0:#acc / 2]",
	"for i <- fromto(0, 2) for k <- fromto(0, 2) ga = ga + i * k", "[sum(2), sum(3)] + [counter(2)]", "rebind(0, 4)", "app(boom, 0, 5)",
	"zf(1)", "zg(\"w\")", "{\nzm = zh()\nzm(3)\n}", "gc = 100", "gd = \"bye \"", "[zf(41), zg(\"x\")]", "whilefn(9, 0, 1)", "for v <- whilegen(9, 0, 1) acc = acc + [v]",
}

// Observer returns a statement that observes or uses the session state.
func (g *FaultGen) Observer() string { return observers[g.pick(len(observers))] }

// FaultSession is a session with failures and its failure-free twin.
type FaultSession struct {
	Real     []string `json:"real"`
	Twin     []string `json:"twin"`
	Carrier  []bool   `json:"carrier"`  // per real statement
	TwinOf   []int    `json:"twin_of"`  // per real statement: index into Twin, -1 = dropped
	Deep     int      `json:"deep"`     // failures at dynamic depth >= 2
	Failures int      `json:"failures"` // carriers in the session
	Followed int      `json:"followed"` // observers after the last carrier
}

// Session generates a session of n statements after the prelude.
func (g *FaultGen) Session() FaultSession {
	var s FaultSession
	add := func(real, twin string, carrier, dropped bool) {
		s.Real = append(s.Real, real)
		s.Carrier = append(s.Carrier, carrier)
		if dropped {
			s.TwinOf = append(s.TwinOf, -1)
			return
		}
		s.Twin = append(s.Twin, twin)
		s.TwinOf = append(s.TwinOf, len(s.Twin)-1)
	}
	for _, p := range FaultPrelude {
		add(p, p, false, false)
	}
	n := 5 + g.pick(20)
	for i := 0; i < n; i++ {
		if g.pick(3) == 0 {
			burst := 1
			if g.pick(4) == 0 {
				burst = 2 + g.pick(2) // several failures in a row
			}
			for b := 0; b < burst; b++ {
				c := g.Carrier()
				add(c.Stmt, c.Twin, true, c.Twin == "")
				s.Failures++
				if c.Deep {
					s.Deep++
				}
				s.Followed = 0
			}
			continue
		}
		o := g.Observer()
		add(o, o, false, false)
		s.Followed++
	}
	// always end with observers
	for _, o := range []string{"[ga, gb, acc]", "sum(5) + counter(3)", "for v <- gstop(2) acc = acc + [v]", "acc"} {
		add(o, o, false, false)
		s.Followed++
	}
	return s
}

// Text renders the real session.
func (s FaultSession) Text() string {
	return strings.Join(s.Real[len(FaultPrelude):], "\n----\n")
}
