package gen

import (
	"fmt"

	"github.com/paulsonkoly/calc/types/node"
)

// JSON form of syntax trees, for replay files.

// TreeJSON is the serialisable form of a tree node.
type TreeJSON struct {
	K string      `json:"k"`
	S string      `json:"s,omitempty"` // operator, name or string value
	I int         `json:"i,omitempty"`
	F float64     `json:"f,omitempty"`
	B bool        `json:"b,omitempty"`
	C []*TreeJSON `json:"c,omitempty"`
	N int         `json:"n,omitempty"` // number of parameters / loop variables
}

func encs(ns ...node.Type) []*TreeJSON {
	r := []*TreeJSON{}
	for _, n := range ns {
		r = append(r, EncodeTree(n))
	}
	return r
}

// EncodeTree converts a tree to its serialisable form.
func EncodeTree(n node.Type) *TreeJSON {
	switch n := n.(type) {
	case node.Int:
		return &TreeJSON{K: "Int", I: int(n)}
	case node.Float:
		return &TreeJSON{K: "Float", F: float64(n)}
	case node.Bool:
		return &TreeJSON{K: "Bool", B: bool(n)}
	case node.String:
		return &TreeJSON{K: "String", S: string(n)}
	case node.Name:
		return &TreeJSON{K: "Name", S: string(n)}
	case node.BinOp:
		return &TreeJSON{K: "BinOp", S: n.Op, C: encs(n.Left, n.Right)}
	case node.UnOp:
		return &TreeJSON{K: "UnOp", S: n.Op, C: encs(n.Target)}
	case node.IndexAt:
		return &TreeJSON{K: "IndexAt", C: encs(n.Ary, n.At)}
	case node.IndexFromTo:
		return &TreeJSON{K: "IndexFromTo", C: encs(n.Ary, n.From, n.To)}
	case node.List:
		return &TreeJSON{K: "List", C: encs(n.Elems...)}
	case node.Call:
		return &TreeJSON{K: "Call", S: string(n.Name.(node.Name)), C: encs(n.Arguments.Elems...)}
	case node.Function:
		return &TreeJSON{K: "Function", N: len(n.Parameters.Elems), C: append(encs(n.Parameters.Elems...), EncodeTree(n.Body))}
	case node.If:
		return &TreeJSON{K: "If", C: encs(n.Condition, n.TrueCase)}
	case node.IfElse:
		return &TreeJSON{K: "IfElse", C: encs(n.Condition, n.TrueCase, n.FalseCase)}
	case node.While:
		return &TreeJSON{K: "While", C: encs(n.Condition, n.Body)}
	case node.For:
		c := append(encs(n.VarRefs.Elems...), encs(n.Iterators.Elems...)...)
		return &TreeJSON{K: "For", N: len(n.VarRefs.Elems), C: append(c, EncodeTree(n.Body))}
	case node.Return:
		return &TreeJSON{K: "Return", C: encs(n.Target)}
	case node.Yield:
		return &TreeJSON{K: "Yield", C: encs(n.Target)}
	case node.Assign:
		return &TreeJSON{K: "Assign", S: string(n.VarRef.(node.Name)), C: encs(n.Value)}
	case node.Block:
		return &TreeJSON{K: "Block", C: encs(n.Body...)}
	}
	panic(fmt.Sprintf("gen.EncodeTree: %T", n))
}

func decs(cs []*TreeJSON) []node.Type {
	r := make([]node.Type, 0)
	for _, c := range cs {
		r = append(r, DecodeTree(c))
	}
	return r
}

// DecodeTree is the inverse of EncodeTree.
func DecodeTree(j *TreeJSON) node.Type {
	c := func(i int) node.Type { return DecodeTree(j.C[i]) }
	switch j.K {
	case "Int":
		return node.Int(j.I)
	case "Float":
		return node.Float(j.F)
	case "Bool":
		return node.Bool(j.B)
	case "String":
		return node.String(j.S)
	case "Name":
		return node.Name(j.S)
	case "BinOp":
		return node.BinOp{Op: j.S, Left: c(0), Right: c(1)}
	case "UnOp":
		return node.UnOp{Op: j.S, Target: c(0)}
	case "IndexAt":
		return node.IndexAt{Ary: c(0), At: c(1)}
	case "IndexFromTo":
		return node.IndexFromTo{Ary: c(0), From: c(1), To: c(2)}
	case "List":
		return node.List{Elems: decs(j.C)}
	case "Call":
		return node.Call{Name: node.Name(j.S), Arguments: node.List{Elems: decs(j.C)}}
	case "Function":
		return node.Function{Parameters: node.List{Elems: decs(j.C[:j.N])}, Body: c(j.N)}
	case "If":
		return node.If{Condition: c(0), TrueCase: c(1)}
	case "IfElse":
		return node.IfElse{Condition: c(0), TrueCase: c(1), FalseCase: c(2)}
	case "While":
		return node.While{Condition: c(0), Body: c(1)}
	case "For":
		return node.For{VarRefs: node.List{Elems: decs(j.C[:j.N])}, Iterators: node.List{Elems: decs(j.C[j.N : 2*j.N])}, Body: c(2 * j.N)}
	case "Return":
		return node.Return{Target: c(0)}
	case "Yield":
		return node.Yield{Target: c(0)}
	case "Assign":
		return node.Assign{VarRef: node.Name(j.S), Value: c(0)}
	case "Block":
		return node.Block{Body: decs(j.C)}
	}
	panic("gen.DecodeTree: " + j.K)
}
