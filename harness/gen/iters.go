package gen

import (
	"fmt"
	"strings"

	"pgregory.net/rapid"
)

// Sessions around generators and for loops (property C02): generator
// definitions with yields inside loops, conditionals, nested calls, recursion
// and closures; compositions (map, filter, zip, chain, take) to any depth;
// zipped loops of unequal length; nested loops; several loops per statement;
// loops in recursive functions; early returns; value-position yields.
// Generators and loop bodies write a trace, so the interleaving is observable.

// IterPrelude defines the generator library the sessions use.
var IterPrelude = []string{
	"map = (f, it) -> for e <- it() yield f(e)",
	"filter = (p, it) -> for e <- it() if p(e) yield e",
	"zip = (a, b) -> for x, y <- a(), b() yield [x, y]",
	"chain = (a, b) -> {\nfor x <- a() yield x\nfor y <- b() yield y\n}",
	"take = (n, it) -> {\nc = 0\nfor v <- it() {\nif c >= n return c\nyield v\nc = c + 1\n}\n}",
	"count = (tag, n) -> {\ni = 0\nwhile i < n {\nwrite(tag + toa(i) + \" \")\nyield i\ni = i + 1\n}\nwrite(tag + \"end \")\n}",
	"rgen = (n) -> {\nif n <= 0 return 0\nfor v <- rgen(n - 1) yield v\nyield n\n}",
	"never = () -> 0",
	"fact = (p) -> {\nq = p + 1\n() -> {\nyield p\nyield q\nyield p + q\n}\n}",
	"sq = (x) -> x * x",
	"isev = (x) -> x % 2 == 0",
	"condgen = (n) -> {\ni = 0\nwhile i < n {\nif i % 3 == 0 yield i else {\nif i % 3 == 1 {\nyield i * 10\nyield i * 100\n}\n}\ni = i + 1\n}\n}",
	"nestgen = (n) -> for i <- fromto(0, n) for j <- fromto(0, i) yield i * 10 + j",
	"kval = () -> yield 5",
	"viay = () -> {\nq = kval()\nyield q + 1\nq\n}",
	"addk = (k) -> (x) -> x + k",
	"hq = addk(7)",
	"fa = fact(3)",
	"fb = fact(10)",
	"facc = (p) -> {\nq = p * 2\n() -> {\ni = 0\nwhile i < 3 {\nyield p + q + i\ni = i + 1\n}\n}\n}",
	"fc = facc(100)",
	"acc = []",
}

// IterGen generates the sessions.
type IterGen struct {
	T     *rapid.T
	ctr   int
	Zips  int // statistics: zipped loops / zip compositions generated
	Depth int // deepest composition generated
}

func (g *IterGen) pick(n int) int {
	if n <= 1 {
		return 0
	}
	return rapid.IntRange(0, n-1).Draw(g.T, "i")
}

func (g *IterGen) fresh(p string) string {
	g.ctr++
	n := g.ctr
	s := ""
	for {
		s = string(rune('a'+n%26)) + s
		n /= 26
		if n == 0 {
			break
		}
	}
	return p + s
}

func (g *IterGen) small() int { return g.pick(6) }

// Iter returns an iterator expression yielding ints, of composition depth <= d.
func (g *IterGen) Iter(d int) string {
	if d > g.Depth {
		g.Depth = d
	}
	if d <= 0 {
		switch g.pick(11) {
		case 9:
			// closures that read their captured variables after every resume
			return []string{"fa()", "fb()", "fc()"}[g.pick(3)]
		case 10:
			return fmt.Sprintf("facc(%d)", g.pick(20))
		case 0:
			return fmt.Sprintf("fromto(%d, %d)", g.pick(4), g.pick(7))
		case 1:
			xs := []string{}
			for i := g.pick(5); i > 0; i-- {
				xs = append(xs, fmt.Sprint(g.pick(10)))
			}
			return "elems([" + strings.Join(xs, ", ") + "])"
		case 2:
			return "indices(\"" + strings.Repeat("x", g.pick(5)) + "\")"
		case 3:
			return fmt.Sprintf("count(\"%s\", %d)", g.fresh("c"), g.small())
		case 4:
			return fmt.Sprintf("rgen(%d)", g.pick(5))
		case 5:
			return "never()"
		case 6:
			return fmt.Sprintf("condgen(%d)", g.small())
		case 7:
			return fmt.Sprintf("nestgen(%d)", g.pick(4))
		default:
			return "viay()"
		}
	}
	th := func() string { return "() -> " + g.Iter(d-1) }
	switch g.pick(8) {
	case 0:
		return fmt.Sprintf("map((e) -> e * %d + %d, %s)", 1+g.pick(3), g.pick(3), th())
	case 1:
		return "map(sq, " + th() + ")"
	case 2:
		return "filter(isev, " + th() + ")"
	case 3:
		return fmt.Sprintf("filter((e) -> e > %d, %s)", g.pick(4), th())
	case 4:
		return "chain(" + th() + ", " + th() + ")"
	case 5:
		return fmt.Sprintf("take(%d, %s)", g.pick(5), th())
	case 6:
		g.Zips++
		return "map((e) -> e[0] * 100 + e[1], () -> zip(" + th() + ", " + th() + "))"
	default:
		return g.Iter(d - 1)
	}
}

// body returns a loop body using the loop variables.
func (g *IterGen) body(vars []string, inFunc bool) string {
	v := vars[g.pick(len(vars))]
	sum := strings.Join(vars, " + ")
	choice := g.pick(8)
	if inFunc && (choice == 1 || choice == 2) {
		// assigning the global accumulator inside a function would create a local
		choice = 4
	}
	switch choice {
	case 0:
		return "write(toa(" + sum + ") + \" \")"
	case 1:
		return "{\nw = (" + v + " + 3) * 2\nacc = acc + [" + v + ", w]\n}"
	case 2:
		return "acc = acc + [sq(" + v + ")]"
	case 3:
		return fmt.Sprintf("if %s > %d return %s * 1000", v, 1+g.pick(5), v)
	case 4:
		return "{\nwrite(\"b\" + toa(" + v + ") + \" \")\n" + sum + "\n}"
	case 5:
		return fmt.Sprintf("{\nif isev(%s) write(\"e\")\n(%s) * 2\n}", v, sum)
	case 6:
		if inFunc {
			return "yield " + sum
		}
		return "{\n[" + strings.Join(vars, ", ") + "]\n}"
	default:
		return sum
	}
}

// Loop returns one for statement.
func (g *IterGen) Loop(d int, inFunc bool) string {
	switch g.pick(5) {
	case 0, 1:
		v := g.fresh("v")
		return "for " + v + " <- " + g.Iter(d) + " " + g.body([]string{v}, inFunc)
	case 2:
		k := 2 + g.pick(2)
		g.Zips++
		vs, its := []string{}, []string{}
		for i := 0; i < k; i++ {
			vs = append(vs, g.fresh("v"))
			its = append(its, g.Iter(d-g.pick(2)))
		}
		return "for " + strings.Join(vs, ", ") + " <- " + strings.Join(its, ", ") + " " + g.body(vs, inFunc)
	case 3:
		a, b := g.fresh("v"), g.fresh("v")
		return "for " + a + " <- " + g.Iter(d) + " {\nfor " + b + " <- " + g.Iter(d-1) + " " + g.body([]string{a, b}, inFunc) + "\n}"
	default:
		a, b := g.fresh("v"), g.fresh("v")
		// the inner iterator depends on the outer variable
		return fmt.Sprintf("for %s <- %s for %s <- fromto(0, %s %% 4) %s", a, g.Iter(d), b, a, g.body([]string{a, b}, inFunc))
	}
}

// Session returns the statements after the prelude.
func (g *IterGen) Session() []string {
	stmts := []string{}
	n := 2 + g.pick(5)
	for i := 0; i < n; i++ {
		d := g.pick(4)
		switch g.pick(12) {
		case 0, 1, 2:
			stmts = append(stmts, g.Loop(d, false))
		case 3: // several loops in one statement
			stmts = append(stmts, "{\n"+g.Loop(d, false)+"\n"+g.Loop(g.pick(3), false)+"\nacc\n}")
		case 4: // a loop in a function, result used; the body may call a closure between the resumptions
			f := g.fresh("f")
			add := "v + n"
			if g.pick(2) == 0 {
				add = "hq(v) + n"
			}
			stmts = append(stmts, f+" = (n) -> {\ns = 0\nfor v <- "+g.Iter(d)+" s = s + "+add+"\ns\n}", f+"(1) + "+f+"(2)", "["+f+"(3), "+f+"(3)]")
		case 5: // a user generator with a loop inside, consumed twice
			gn := g.fresh("g")
			stmts = append(stmts, gn+" = (n) -> {\n"+g.Loop(d, true)+"\nyield n\n}",
				"for x <- "+gn+"(7) write(toa(x) + \",\")", "for x, y <- "+gn+"(1), "+gn+"(2) write(toa(x + y) + \";\")")
		case 6: // recursion with loops: contexts are keyed by call depth
			r := g.fresh("r")
			stmts = append(stmts, r+" = (n) -> {\nif n <= 0 return 0\ns = 0\nfor i, j <- fromto(0, n), "+g.Iter(1)+" s = s + i + j + "+r+"(n - 1)\ns\n}", fmt.Sprintf("%s(%d)", r, 1+g.pick(3)))
		case 7: // generator factory (closure yields its captured variables), body calls a function
			b := g.fresh("b")
			stmts = append(stmts, fmt.Sprintf("%s = fact(%d)", b, g.pick(9)), "for v <- "+b+"() acc = acc + [sq(v)]", "for v, w <- "+b+"(), "+b+"() acc = acc + [v * w]")
		case 8: // yield without an enclosing loop only evaluates to its operand
			stmts = append(stmts, fmt.Sprintf("yield %d", g.pick(9)), "kval()", "viay()", "[kval(), kval() + 1]")
		case 9: // a generator closing over variables of the function that runs the loop, which the body keeps changing
			f := g.fresh("f")
			k := 1 + g.pick(4)
			src := "gg()"
			if g.pick(3) == 0 {
				src = "map(sq, gg)"
			}
			stmts = append(stmts, fmt.Sprintf("%s = (n) -> {\nstop = false\nlim = n\ngg = () -> {\ni = 0\nwhile !stop {\nyield i * %d + lim\ni = i + 1\n}\n}\nr = []\nfor v <- %s {\nr = r + [v]\nlim = lim + 10\nif #r >= %d stop = true\n}\nr\n}", f, k, src, 2+g.pick(3)),
				fmt.Sprintf("%s(%d)", f, g.pick(9)), fmt.Sprintf("[%s(1), %s(2)]", f, f))
		case 10: // a loop variable named like a global or a captured variable that its own iterator expression mentions:
			// when the iterator starts the function has no variable of that name yet, the outer one is read
			f, b := g.fresh("f"), g.fresh("b")
			k := 1 + g.pick(3)
			stmts = append(stmts, "glo = 100",
				fmt.Sprintf("%s = () -> {\nr = []\nfor glo <- fromto(glo, glo + %d) r = r + [glo]\nr + [glo]\n}", f, k+1),
				f+"()",
				fmt.Sprintf("%s = (p) -> {\nq = p * 2\n() -> {\nr = []\nfor q <- chain(() -> fromto(0, 1), () -> elems([q, q + %d])) r = r + [q]\nr\n}\n}", b, k),
				fmt.Sprintf("{\nzb = %s(%d)\nzb()\n}", b, g.pick(5)),
				fmt.Sprintf("%s = () -> {\nr = []\nfor w, glo <- fromto(glo, glo + %d), fromto(0, 5) r = r + [w + glo]\nr\n}", f+"x", k+1),
				f+"x()")
		default: // early return from nested loops in a function, then the same loops again
			f := g.fresh("f")
			stmts = append(stmts, f+" = (n) -> {\nfor i <- "+g.Iter(d)+" {\nfor j <- fromto(0, 4) {\nif i * j == n return [i, j]\n}\n}\n}",
				fmt.Sprintf("[%s(%d), %s(%d)]", f, g.pick(5), f, g.pick(9)))
		}
		if g.pick(3) == 0 {
			stmts = append(stmts, "acc")
		}
	}
	return stmts
}
