package gen

import (
	"fmt"
	"strconv"
	"strings"

	"github.com/paulsonkoly/calc/types/node"
)

// Source printer for syntax trees, written from the documented grammar only:
// five binary precedence levels, all left-associative, unary operators bind
// tighter, indexing tightest, statements end at a newline, braces for
// multi-statement bodies. Layout is drawn from a Chooser so that one tree can
// be printed in many ways.

// Chooser picks layout alternatives; Pick(n) returns 0..n-1, 0 being the
// plainest choice.
type Chooser interface {
	Pick(n int) int
}

// Plain always picks the plainest layout: minimal parentheses and braces,
// single blanks, no comments.
type Plain struct{}

// Pick implements Chooser.
func (Plain) Pick(int) int { return 0 }

// BinOps lists the binary operators by precedence level, lowest first.
var BinOps = [][]string{{"&&", "||"}, {"==", "!=", "<=", ">=", "<", ">"}, {"&", "|"}, {"+", "-"}, {"*", "/", "%", "<<", ">>"}}

// Prec is the precedence level of a binary operator.
func Prec(op string) int {
	for i, l := range BinOps {
		for _, o := range l {
			if o == op {
				return i
			}
		}
	}
	panic("gen.Prec: " + op)
}

// Printer prints trees with layout choices from C.
type Printer struct {
	C Chooser
	// Redundant enables redundant parentheses, braces, blank lines and comments.
	Redundant bool
}

func (p *Printer) chance(n int) bool { return p.Redundant && p.C.Pick(n) == n-1 }

func (p *Printer) ws() string {
	if !p.Redundant {
		return " "
	}
	switch p.C.Pick(6) {
	case 4:
		return "  "
	case 5:
		return "\t"
	default:
		return " "
	}
}

func (p *Printer) ws0() string {
	if p.chance(4) {
		return " "
	}
	return ""
}

func (p *Printer) nl() string {
	s := "\n"
	for p.chance(4) {
		if p.C.Pick(2) == 0 {
			s = " ; comment { [ \" ( \n" + s
		} else {
			s += "\n"
		}
	}
	return s
}

func (p *Printer) paren(s string) string { return "(" + p.ws0() + s + p.ws0() + ")" }

// level: minimal precedence level allowed without parentheses:
// 0..4 binary, 5 unary operand position, 6 atom (index target)
func (p *Printer) expr(n node.Type, level int) string {
	s, lv := p.expr1(n)
	if lv < level || p.chance(8) {
		return p.paren(s)
	}
	return s
}

// FloatText spells a non-negative finite float as a float literal.
func FloatText(f float64) string {
	s := strconv.FormatFloat(f, 'f', -1, 64)
	if !strings.Contains(s, ".") {
		s += ".0"
	}
	return s
}

// StringText spells a string (without backslashes) as a string literal.
func StringText(s string, escapeNewline bool) string {
	s = strings.ReplaceAll(s, "\"", "\\\"")
	if escapeNewline {
		s = strings.ReplaceAll(s, "\n", "\\n")
	}
	return "\"" + s + "\""
}

func (p *Printer) expr1(n node.Type) (string, int) {
	switch n := n.(type) {
	case node.Int:
		return strconv.Itoa(int(n)), 6
	case node.Float:
		return FloatText(float64(n)), 6
	case node.Bool:
		return strconv.FormatBool(bool(n)), 6
	case node.String:
		return StringText(string(n), p.C.Pick(2) == 1), 6
	case node.Name:
		return string(n), 6
	case node.List:
		parts := []string{}
		for _, e := range n.Elems {
			parts = append(parts, p.expr(e, 0))
		}
		sep := "," + p.ws()
		if p.chance(3) {
			sep = "," + p.nl()
		}
		open := "["
		if p.chance(4) {
			open = "[" + p.nl()
		}
		return open + strings.Join(parts, sep) + "]", 6
	case node.Call:
		parts := []string{}
		for _, e := range n.Arguments.Elems {
			parts = append(parts, p.expr(e, 0))
		}
		return string(n.Name.(node.Name)) + p.ws0() + "(" + strings.Join(parts, ","+p.ws()) + ")", 6
	case node.Function:
		return p.function(n), -1
	case node.BinOp:
		pr := Prec(n.Op)
		return p.expr(n.Left, pr) + p.ws() + n.Op + p.ws() + p.expr(n.Right, pr+1), pr
	case node.UnOp:
		return n.Op + p.ws0() + p.expr(n.Target, 6), 5
	case node.IndexAt:
		return p.expr(n.Ary, 6) + p.ws0() + "[" + p.expr(n.At, 0) + "]", 6
	case node.IndexFromTo:
		return p.expr(n.Ary, 6) + p.ws0() + "[" + p.expr(n.From, 0) + p.ws0() + ":" + p.ws0() + p.expr(n.To, 0) + "]", 6
	}
	panic(fmt.Sprintf("gen.Printer: %T is not an expression", n))
}

func (p *Printer) function(n node.Function) string {
	ps := []string{}
	for _, q := range n.Parameters.Elems {
		ps = append(ps, string(q.(node.Name)))
	}
	return "(" + strings.Join(ps, ","+p.ws()) + ")" + p.ws() + "->" + p.ws() + p.body(n.Body, false)
}

// tail prints an expression in a position where it extends to the end of the
// statement, so a function literal needs no parentheses there.
func (p *Printer) tail(n node.Type) string {
	if f, ok := n.(node.Function); ok && !p.chance(3) {
		return p.function(f)
	}
	return p.expr(n, 0)
}

func isExprNode(n node.Type) bool {
	switch n.(type) {
	case node.If, node.IfElse, node.While, node.For, node.Return, node.Yield, node.Assign, node.Block:
		return false
	}
	return true
}

// Stmt prints one statement (not a Block).
func (p *Printer) Stmt(n node.Type) string {
	switch n := n.(type) {
	case node.If:
		return "if" + p.ws() + p.expr(n.Condition, 0) + p.ws() + p.body(n.TrueCase, false)
	case node.IfElse:
		return "if" + p.ws() + p.expr(n.Condition, 0) + p.ws() + p.body(n.TrueCase, true) + p.ws() + "else" + p.ws() + p.body(n.FalseCase, false)
	case node.While:
		return "while" + p.ws() + p.expr(n.Condition, 0) + p.ws() + p.body(n.Body, false)
	case node.For:
		vs, is := []string{}, []string{}
		for i := range n.VarRefs.Elems {
			vs = append(vs, string(n.VarRefs.Elems[i].(node.Name)))
			is = append(is, p.expr(n.Iterators.Elems[i], 0))
		}
		return "for" + p.ws() + strings.Join(vs, ","+p.ws()) + p.ws() + "<-" + p.ws() + strings.Join(is, ","+p.ws()) + p.ws() + p.body(n.Body, false)
	case node.Return:
		return "return" + p.ws() + p.tail(n.Target)
	case node.Yield:
		return "yield" + p.ws() + p.tail(n.Target)
	case node.Assign:
		return string(n.VarRef.(node.Name)) + p.ws() + "=" + p.ws() + p.tail(n.Value)
	case node.Block:
		panic("gen.Printer: Block printed as a statement")
	}
	return p.tail(n)
}

// Top prints a top-level statement, which may be a Block.
func (p *Printer) Top(n node.Type) string {
	if _, ok := n.(node.Block); ok {
		return p.body(n, false)
	}
	return p.Stmt(n)
}

// endsOpen reports whether the text of n can end in a construct that a
// following "else" would attach to (an if without else at the end of a
// one-line body chain), or in a function literal whose body would swallow it.
func endsOpen(n node.Type) bool {
	switch n := n.(type) {
	case node.If:
		return true
	case node.IfElse:
		return endsOpen(n.FalseCase)
	case node.While:
		return endsOpen(n.Body)
	case node.For:
		return endsOpen(n.Body)
	case node.Block:
		return false
	case node.Assign:
		return endsOpen(n.Value)
	case node.Return:
		return endsOpen(n.Target)
	case node.Yield:
		return endsOpen(n.Target)
	case node.Function:
		return endsOpen(n.Body)
	case node.BinOp:
		// a parenthesised function on the right is closed by its parenthesis
		return false
	}
	return false
}

// body prints a block position; beforeElse tells an else follows.
func (p *Printer) body(n node.Type, beforeElse bool) string {
	if b, ok := n.(node.Block); ok {
		parts := []string{}
		for _, s := range b.Body {
			parts = append(parts, p.Stmt(s))
		}
		return "{" + p.nl() + strings.Join(parts, p.nl()) + p.nl() + "}"
	}
	s := p.Stmt(n)
	brace := p.chance(3)
	// an expression body starting with ( [ or - would continue the expression before it
	if isExprNode(n) {
		if t := strings.TrimLeft(s, " \t"); len(t) > 0 && strings.ContainsRune("([-", rune(t[0])) {
			brace = true
		}
	}
	if beforeElse && endsOpen(n) {
		brace = true
	}
	if brace {
		return "{" + p.nl() + s + p.nl() + "}"
	}
	return s
}
