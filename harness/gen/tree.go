package gen

import (
	"pgregory.net/rapid"

	"github.com/paulsonkoly/calc/types/node"
)

// Random syntax trees of exactly the shapes the parser can produce: no
// one-statement Block, non-negative Int/Float, Call.Name a Name, equal
// VarRefs/Iterators lengths, non-keyword names, strings without backslash.

// RapidChooser draws layout choices from a rapid test.
type RapidChooser struct{ T *rapid.T }

// Pick implements Chooser.
func (c RapidChooser) Pick(n int) int {
	if n <= 1 {
		return 0
	}
	return rapid.IntRange(0, n-1).Draw(c.T, "layout")
}

// TreeGen generates syntax trees.
type TreeGen struct {
	T *rapid.T
	// Names overrides the pool of variable / function names.
	Names []string
	// Blind selects leaves and loops for programs that are going to be executed:
	// small literals next to extreme ones, while loops bounded by a counter.
	Blind bool
}

var treeNames = []string{"a", "b", "foo", "x", "iff", "truex", "z", "elsee", "fo", "returnn"}
var treeStrings = []string{"", "ab", "a\"b", "x\ny", "{[;", "é", "}", "; not a comment", "\"", "a b", "(", "\t"}
var treeFloats = []float64{0.5, 1.25, 3.0, 1e21, 1e-7, 123456.789, 0.0, 1.7976931348623157e308, 5e-324}
var treeInts = []int{0, 1, 2, 7, 10, 99, 1 << 31, 1<<63 - 1}

func (g *TreeGen) pick(n int) int { return rapid.IntRange(0, n-1).Draw(g.T, "t") }

func (g *TreeGen) name() node.Name {
	if g.Names != nil {
		return node.Name(g.Names[g.pick(len(g.Names))])
	}
	return node.Name(treeNames[g.pick(len(treeNames))])
}

var blindInts = []int{0, 1, 2, 3, 7, 63, 64, 1 << 31, 1<<63 - 1}
var blindFloats = []float64{0.0, 1.5, 2.0, 1e-320, 1e308}
var blindStrings = []string{"", "ab", "x", "12", "1.5", "a\"b", "日本語のテキスト", "ééééééééééé", "a long plain ascii text of 40 characters."}

func (g *TreeGen) blindLeaf() node.Type {
	switch g.pick(8) {
	case 0, 1:
		return node.Int(blindInts[g.pick(len(blindInts))])
	case 2:
		return node.Float(blindFloats[g.pick(len(blindFloats))])
	case 3:
		return node.Bool(g.pick(2) == 0)
	case 4:
		return node.String(blindStrings[g.pick(len(blindStrings))])
	case 5:
		return node.List{Elems: make([]node.Type, 0)}
	default:
		return g.name()
	}
}

func (g *TreeGen) leaf() node.Type {
	if g.Blind {
		return g.blindLeaf()
	}
	switch g.pick(6) {
	case 0:
		return node.Int(treeInts[g.pick(len(treeInts))])
	case 1:
		return node.Float(treeFloats[g.pick(len(treeFloats))])
	case 2:
		return node.Bool(g.pick(2) == 0)
	case 3:
		return node.String(treeStrings[g.pick(len(treeStrings))])
	default:
		return g.name()
	}
}

// AllBinOps is every binary operator.
var AllBinOps = []string{"&&", "||", "==", "!=", "<=", ">=", "<", ">", "&", "|", "+", "-", "*", "/", "%", "<<", ">>"}

// Expr generates an expression of depth at most d.
func (g *TreeGen) Expr(d int) node.Type {
	if d <= 0 {
		return g.leaf()
	}
	switch g.pick(11) {
	case 0, 1, 2, 3:
		return node.BinOp{Op: AllBinOps[g.pick(len(AllBinOps))], Left: g.Expr(d - 1), Right: g.Expr(d - 1)}
	case 4:
		return node.UnOp{Op: []string{"-", "#", "!", "~"}[g.pick(4)], Target: g.Expr(d - 1)}
	case 5:
		return node.IndexAt{Ary: g.Expr(d - 1), At: g.Expr(d - 1)}
	case 6:
		return node.IndexFromTo{Ary: g.Expr(d - 1), From: g.Expr(d - 1), To: g.Expr(d - 1)}
	case 7:
		return node.List{Elems: g.exprs(d-1, 3)}
	case 8:
		return node.Call{Name: g.name(), Arguments: node.List{Elems: g.exprs(d-1, 3)}}
	case 9:
		n := g.pick(3)
		ps := make([]node.Type, 0)
		for i := 0; i < n; i++ {
			ps = append(ps, g.name())
		}
		return node.Function{Parameters: node.List{Elems: ps}, Body: g.Block(d - 1)}
	default:
		return g.leaf()
	}
}

func (g *TreeGen) exprs(d, max int) []node.Type {
	n := g.pick(max + 1)
	es := make([]node.Type, 0)
	for i := 0; i < n; i++ {
		es = append(es, g.Expr(d))
	}
	return es
}

// Block generates a body: one statement, or a Block of 2-3 statements.
func (g *TreeGen) Block(d int) node.Type {
	if d <= 0 || g.pick(2) == 0 {
		return g.Stmt(d)
	}
	n := 2 + g.pick(2)
	b := make([]node.Type, 0)
	for i := 0; i < n; i++ {
		b = append(b, g.Stmt(d-1))
	}
	return node.Block{Body: b}
}

// Stmt generates a statement (never a Block).
func (g *TreeGen) Stmt(d int) node.Type {
	if d <= 0 {
		return g.leaf()
	}
	switch g.pick(9) {
	case 0:
		return node.If{Condition: g.Expr(d - 1), TrueCase: g.Block(d - 1)}
	case 1:
		return node.IfElse{Condition: g.Expr(d - 1), TrueCase: g.Block(d - 1), FalseCase: g.Block(d - 1)}
	case 2:
		if g.Blind && g.pick(8) != 0 {
			// a loop that ends: w counts up to a small bound
			body := node.Block{Body: []node.Type{
				node.Assign{VarRef: node.Name("w"), Value: node.BinOp{Op: "+", Left: node.Name("w"), Right: node.Int(1)}},
				g.Stmt(d - 1),
			}}
			return node.While{Condition: node.BinOp{Op: "<", Left: node.Name("w"), Right: node.Int(2 + g.pick(2))}, Body: body}
		}
		return node.While{Condition: g.Expr(d - 1), Body: g.Block(d - 1)}
	case 3:
		k := 1 + g.pick(3)
		vs, is := make([]node.Type, 0), make([]node.Type, 0)
		for i := 0; i < k; i++ {
			vs = append(vs, g.name())
			is = append(is, g.Expr(d-1))
		}
		return node.For{VarRefs: node.List{Elems: vs}, Iterators: node.List{Elems: is}, Body: g.Block(d - 1)}
	case 4:
		return node.Return{Target: g.Expr(d - 1)}
	case 5:
		return node.Yield{Target: g.Expr(d - 1)}
	case 6:
		return node.Assign{VarRef: g.name(), Value: g.Expr(d - 1)}
	default:
		return g.Expr(d)
	}
}
