package gen

import (
	"fmt"
	"strings"

	"pgregory.net/rapid"
)

type ty int

const (
	tInt ty = iota
	tFloat
	tBool
	tStr
	tArr // array of int
	tFn
)

type vinfo struct {
	name   string
	t      ty
	params []ty // for functions
	ret    ty
	gen    bool // yields ints
	assign bool // may be assigned in the current function
}

// G generates well-typed, terminating, well-scoped calc sessions as source
// text. Every random choice is drawn from the rapid test.
type G struct {
	T      *rapid.T
	scopes [][]*vinfo // 0 = globals
	ctr    int
	inFn   int
	inGen  bool
	fuel   int
	// NoIO makes the generated functions side-effect free (no write).
	NoIO bool
	// Ill is the rate (per thousand leaves) of ill-typed leaves and undefined
	// names, which exercise the error paths.
	Ill int
}

func (g *G) fresh(prefix string) string {
	g.ctr++
	n := g.ctr
	s := ""
	for {
		s = string(rune('a'+n%26)) + s
		n /= 26
		if n == 0 {
			break
		}
	}
	return prefix + s
}

func (g *G) pick(n int) int {
	if n <= 1 {
		return 0
	}
	return rapid.IntRange(0, n-1).Draw(g.T, "k")
}

func (g *G) vars(t ty, forAssign bool) []*vinfo {
	res := []*vinfo{}
	seen := map[string]bool{}
	for i := len(g.scopes) - 1; i >= 0; i-- {
		// only local, immediately enclosing, and global scopes are visible
		if i != len(g.scopes)-1 && i != len(g.scopes)-2 && i != 0 {
			continue
		}
		for _, v := range g.scopes[i] {
			if seen[v.name] {
				continue
			}
			seen[v.name] = true
			if v.t != t {
				continue
			}
			if forAssign && (i != len(g.scopes)-1 || !v.assign) {
				continue
			}
			res = append(res, v)
		}
	}
	return res
}

func (g *G) fns(ret ty, gen bool) []*vinfo {
	res := []*vinfo{}
	for _, v := range g.vars(tFn, false) {
		if v.gen == gen && (gen || v.ret == ret) {
			res = append(res, v)
		}
	}
	return res
}

func (g *G) lit(t ty) string {
	switch t {
	case tInt:
		return fmt.Sprint(g.pick(10))
	case tFloat:
		return []string{"0.5", "1.5", "2.0", "3.25", "0.0", "(0.0 / 0.0)", "(1.0 / 0.0)", "9007199254740992.0", "0.1", "0.559", "4503599627370497.5"}[g.pick(11)]
	case tBool:
		return []string{"true", "false"}[g.pick(2)]
	case tStr:
		return []string{`"ab"`, `""`, `"x"`, `"hello"`, `"日本語のテキスト"`, `"ééééééééééé"`, `"twenty five ascii letters"`, `"50%d off"`, `"100%"`, `"%s%v%%"`}[g.pick(10)]
	case tArr:
		return []string{"[]", "[1, 2, 3]", "[4]", "[5, 6]"}[g.pick(4)]
	}
	panic("lit")
}

func (g *G) expr(t ty, d int) string {
	g.fuel--
	if d <= 0 || g.fuel < 0 {
		if g.Ill > 0 && rapid.IntRange(0, 999).Draw(g.T, "ill") < g.Ill {
			// an undefined name or a literal of some other type
			if g.pick(2) == 0 {
				return "nothing" + string(rune('a'+g.pick(3)))
			}
			return g.lit(g.anyT())
		}
		if vs := g.vars(t, false); len(vs) > 0 && g.pick(3) > 0 {
			return vs[g.pick(len(vs))].name
		}
		return g.lit(t)
	}
	// call a function returning t
	if fs := g.fns(t, false); len(fs) > 0 && g.pick(4) == 0 {
		f := fs[g.pick(len(fs))]
		return g.call(f, d-1)
	}
	if (t == tStr || t == tArr) && g.pick(4) == 0 || (t == tInt || t == tFloat) && g.pick(8) == 0 {
		// the order of the operands shows in strings and arrays
		return g.chain(t, d-1)
	}
	switch t {
	case tInt:
		switch g.pick(9) {
		case 0, 1, 2:
			op := []string{"+", "-", "*", "&", "|", "+", "-"}[g.pick(7)]
			return g.paren(g.expr(tInt, d-1)) + " " + op + " " + g.paren(g.expr(tInt, d-1))
		case 3:
			if g.pick(3) == 0 {
				return "#" + g.sliceOf("("+g.expr(tStr, d-1)+` + "pq")`, d-1)
			}
			return "#" + g.paren(g.expr([]ty{tStr, tArr}[g.pick(2)], d-1))
		case 4:
			return "-" + g.paren(g.expr(tInt, d-1))
		case 5:
			// safe index
			a := g.expr(tArr, d-1)
			if g.pick(3) == 0 {
				return "(" + a + " + [7])[0]"
			}
			// the index is computed (possibly through calls) but stays in range
			return "(" + a + " + [7, 8])[" + g.smallIndex(d-1, 0) + "]"
		case 6:
			return g.paren(g.expr(tInt, d-1)) + " % " + fmt.Sprint(1+g.pick(5))
		case 7:
			return g.paren(g.expr(tInt, d-1)) + " / " + fmt.Sprint(1+g.pick(5))
		default:
			return g.expr(tInt, 0)
		}
	case tFloat:
		switch g.pick(5) {
		case 4:
			// division tells an int from a float of the same value
			return g.paren(g.expr(tFloat, d-1)) + " / " + []string{"2", "4", "0.5", "3", "8.0"}[g.pick(5)]
		case 0:
			op := []string{"+", "-", "*"}[g.pick(3)]
			return g.paren(g.expr(tFloat, d-1)) + " " + op + " " + g.paren(g.expr([]ty{tInt, tFloat}[g.pick(2)], d-1))
		case 1:
			return g.paren(g.expr(tInt, d-1)) + " * " + g.paren(g.expr(tFloat, d-1))
		default:
			return g.expr(tFloat, 0)
		}
	case tBool:
		switch g.pick(6) {
		case 0, 1:
			op := []string{"<", "<=", ">", ">=", "==", "!="}[g.pick(6)]
			return g.paren(g.expr(tInt, d-1)) + " " + op + " " + g.paren(g.expr(tInt, d-1))
		case 2:
			op := []string{"&", "|", "&&", "||"}[g.pick(4)]
			return g.paren(g.expr(tBool, d-1)) + " " + op + " " + g.paren(g.expr(tBool, d-1))
		case 3:
			if g.pick(3) == 0 {
				// a negated ordering of floats is not the opposite ordering: NaN fails both
				f := func() string {
					if g.pick(3) == 0 {
						return "(0.0 / 0.0)"
					}
					return g.paren(g.expr(tFloat, 0))
				}
				return "!(" + f() + " " + []string{"<", "<=", ">", ">="}[g.pick(4)] + " " + f() + ")"
			}
			return "!" + g.paren(g.expr(tBool, d-1))
		case 4:
			t2 := []ty{tStr, tArr, tFloat}[g.pick(3)]
			if t2 == tFloat && g.pick(2) == 0 {
				// ordering of floats (NaN compares false every way)
				op := []string{"<", "<=", ">", ">="}[g.pick(4)]
				return g.paren(g.expr(tFloat, d-1)) + " " + op + " " + g.paren(g.expr([]ty{tInt, tFloat}[g.pick(2)], d-1))
			}
			return g.paren(g.expr(t2, d-1)) + " " + []string{"==", "!="}[g.pick(2)] + " " + g.paren(g.expr(t2, d-1))
		default:
			return g.expr(tBool, 0)
		}
	case tStr:
		switch g.pick(5) {
		case 0, 1:
			return g.paren(g.expr(tStr, d-1)) + " + " + g.paren(g.expr(tStr, d-1))
		case 2:
			return "toa(" + g.expr([]ty{tInt, tBool, tArr, tFloat}[g.pick(4)], d-1) + ")"
		case 3:
			s := g.expr(tStr, d-1)
			if g.pick(4) == 0 {
				return "(" + s + ` + "pq")[` + g.smallIndex(d-1, 0) + `]`
			}
			return g.sliceOf("("+s+` + "pq")`, d-1)
		default:
			return g.expr(tStr, 0)
		}
	case tArr:
		switch g.pick(6) {
		case 0, 1:
			return g.paren(g.expr(tArr, d-1)) + " + " + g.paren(g.expr(tArr, d-1))
		case 2:
			n := g.pick(4)
			xs := []string{}
			for i := 0; i < n; i++ {
				xs = append(xs, g.expr(tInt, d-1))
			}
			return "[" + strings.Join(xs, ", ") + "]"
		case 3:
			a := g.expr(tArr, d-1)
			return g.sliceOf("("+a+" + [8, 9])", d-1)
		default:
			return g.expr(tArr, 0)
		}
	}
	panic("expr")
}

// chain is an operator tree of a random shape (left nested, right nested,
// balanced) over 3 or 4 simple operands: the shapes decide which operand the
// compiler computes in the temp register and which it pushes.
func (g *G) chain(t ty, d int) string {
	ops := []string{"+"}
	if t == tInt {
		ops = []string{"+", "-", "*", "&", "|"}
	}
	first := true
	leaf := func() string {
		if t == tFloat {
			// sums of a float and integer constants: every intermediate sum rounds
			ops = []string{"+", "-", "+"}
			if !first && g.pick(3) > 0 {
				return fmt.Sprint(1 + g.pick(9))
			}
			first = false
		}
		if d > 0 && g.pick(5) == 0 {
			return g.paren(g.expr(t, d-1))
		}
		return g.paren(g.expr(t, 0))
	}
	var build func(n int) string
	build = func(n int) string {
		if n == 1 {
			return leaf()
		}
		k := 1 + g.pick(n-1) // operands on the left side
		l, r := build(k), build(n-k)
		if k > 1 {
			l = "(" + l + ")"
		}
		if n-k > 1 {
			r = "(" + r + ")"
		}
		return l + " " + ops[g.pick(len(ops))] + " " + r
	}
	return build(3 + g.pick(2))
}

// smallIndex is an int expression with value base or base+1, computed in one of
// several ways: a constant, a masked arbitrary expression, or a call of a helper
// whose body itself uses the temp register.
func (g *G) smallIndex(d, base int) string {
	b := fmt.Sprint(base)
	switch g.pick(6) {
	case 0:
		return b
	case 1:
		return fmt.Sprint(base + 1)
	case 2:
		if base == 0 {
			return g.bit(d)
		}
		return g.bit(d) + " + " + b
	case 3:
		if base == 0 {
			return "one() - 1"
		}
		return "one()"
	case 4:
		return "inc(" + b + ") - 1"
	default:
		return "inc(" + b + ")"
	}
}

// sliceOf slices base (of length >= 2) with bounds lo in {0,1} and hi in {1,2},
// each computed in one of several ways.
func (g *G) sliceOf(base string, d int) string {
	return base + "[" + g.smallIndex(d, 0) + ":" + g.smallIndex(d, 1) + "]"
}

// bit is an int expression whose value is 0 or 1 whatever its operand is.
func (g *G) bit(d int) string {
	return g.paren(g.expr(tInt, d)) + " & 1"
}

func (g *G) paren(s string) string {
	if strings.ContainsAny(s, " -#!") {
		return "(" + s + ")"
	}
	return s
}

func (g *G) call(f *vinfo, d int) string {
	args := []string{}
	for _, pt := range f.params {
		if pt == tFn {
			// pass a function int->int
			args = append(args, g.fnArg(d))
		} else {
			args = append(args, g.expr(pt, d))
		}
	}
	return f.name + "(" + strings.Join(args, ", ") + ")"
}

func (g *G) fnArg(d int) string {
	if fs := g.fns(tInt, false); len(fs) > 0 && g.pick(2) == 0 {
		for _, f := range fs {
			if len(f.params) == 1 && f.params[0] == tInt {
				return f.name
			}
		}
	}
	p := g.fresh("q")
	g.push()
	g.def(&vinfo{name: p, t: tInt})
	body := g.expr(tInt, d)
	g.pop()
	return "(" + p + ") -> " + body
}

func (g *G) push()                  { g.scopes = append(g.scopes, nil) }
func (g *G) pop()                   { g.scopes = g.scopes[:len(g.scopes)-1] }
func (g *G) def(v *vinfo)           { g.scopes[len(g.scopes)-1] = append(g.scopes[len(g.scopes)-1], v) }
func (g *G) anyT() ty               { return []ty{tInt, tInt, tFloat, tBool, tStr, tArr}[g.pick(6)] }
func (g *G) indent(s string) string { return s }

// stmt generates one statement; ret is the function return type (or -1 at top level)
func (g *G) stmt(d int, ret ty) string {
	g.fuel--
	if g.fuel < 0 {
		d = 0
	}
	local := len(g.scopes) > 1
	switch c := g.pick(14); {
	case c <= 2: // assign new
		t := g.anyT()
		e := g.expr(t, d)
		prefix := "g"
		if local {
			prefix = "l"
		}
		name := g.fresh(prefix)
		// sometimes shadow a global name
		if local && g.pick(6) == 0 && len(g.scopes[0]) > 0 {
			cand := g.scopes[0][g.pick(len(g.scopes[0]))]
			if cand.t != tFn {
				// shadowing assignment: the value may refer the global
				name = cand.name
				t = cand.t
				e = g.expr(t, d)
			}
		}
		g.def(&vinfo{name: name, t: t, assign: true})
		return name + " = " + e
	case c == 3: // reassign
		t := g.anyT()
		if vs := g.vars(t, true); len(vs) > 0 {
			v := vs[g.pick(len(vs))]
			if t == tInt && g.pick(3) == 0 {
				return []string{v.name + " = " + v.name + " + 1", v.name + " = 1 + " + v.name, v.name + " = " + v.name + " + 2", v.name + " = 2 + " + v.name,
					v.name + " = " + v.name + " - 1", v.name + " = " + v.name + " * 2", v.name + " = " + v.name + " + " + v.name, v.name + " = 1 + " + v.name + " + 1"}[g.pick(8)]
			}
			if t == tInt && g.pick(8) == 0 {
				// the sum with a float literal turns the variable into a float
				v.t = tFloat
				return []string{v.name + " = " + v.name + " + 1.0", v.name + " = 1.0 + " + v.name, v.name + " = " + v.name + " + 0.5", v.name + " = " + v.name + " * 1.0"}[g.pick(4)]
			}
			if (t == tStr || t == tArr) && g.pick(4) == 0 {
				return v.name + " = " + v.name + " + " + g.expr(t, 0)
			}
			return v.name + " = " + g.expr(t, d)
		}
		return g.expr(t, d)
	case c == 4 && d > 0:
		return "if " + g.expr(tBool, d-1) + " " + g.block(d-1, ret)
	case c == 5 && d > 0:
		return "if " + g.expr(tBool, d-1) + " " + g.block(d-1, ret) + " else " + g.block(d-1, ret)
	case c == 6 && d > 0:
		w := g.fresh("w")
		n := 1 + g.pick(3)
		g.def(&vinfo{name: w, t: tInt})
		body := g.stmts(d-1, ret, 1+g.pick(2))
		cond := w + " < " + fmt.Sprint(n)
		switch g.pick(4) {
		case 0: // the condition calls a function
			cond = "lt(" + w + ", " + fmt.Sprint(n) + ")"
		case 1:
			cond = "!lt(" + fmt.Sprint(n-1) + ", " + w + ")"
		}
		if g.pick(3) == 0 {
			// the body ends in the loop's own statements, the counter moves first
			return w + " = 0\nwhile " + cond + " {\n" + w + " = " + w + " + 1\n" + body + "\n}"
		}
		return w + " = 0\nwhile " + cond + " {\n" + body + "\n" + w + " = " + w + " + 1\n}"
	case (c == 7 || c == 8) && d > 0:
		gens := g.fns(0, true)
		k := 1
		if g.pick(4) == 0 {
			k = 2
		}
		vars, its := []string{}, []string{}
		reused := map[string]bool{}
		for i := 0; i < k; i++ {
			v := g.fresh("v")
			if local && g.pick(4) == 0 {
				// an int variable the function already has becomes a loop variable
				if old := g.vars(tInt, true); len(old) > 0 {
					if o := old[g.pick(len(old))]; !reused[o.name] {
						v = o.name
						reused[v] = true
					}
				}
			}
			vars = append(vars, v)
			if len(gens) > 0 && g.pick(3) > 0 {
				its = append(its, g.call(gens[g.pick(len(gens))], d-1))
			} else {
				switch g.pick(3) {
				case 0:
					its = append(its, "fromto("+g.expr(tInt, 0)+", "+fmt.Sprint(g.pick(5))+")")
				case 1:
					its = append(its, "elems("+g.expr(tArr, d-1)+")")
				default:
					its = append(its, "indices("+g.expr(tStr, d-1)+")")
				}
			}
		}
		for _, v := range vars {
			if !reused[v] {
				g.def(&vinfo{name: v, t: tInt})
			}
		}
		return "for " + strings.Join(vars, ", ") + " <- " + strings.Join(its, ", ") + " " + g.block(d-1, ret)
	case c == 9 && local && d > 0:
		if g.pick(2) == 0 {
			return "if " + g.expr(tBool, d-1) + " return " + g.expr(ret, d-1)
		}
		return g.expr(g.anyT(), d)
	case c == 10 && g.inGen:
		return "yield " + g.expr(tInt, d)
	case c == 11 && d > 0:
		return g.fundef(d-1, false)
	case c == 12 && !g.NoIO:
		return "write(toa(" + g.expr(g.anyT(), d) + ") + \"\\n\")"
	default:
		return g.expr(g.anyT(), d)
	}
}

func (g *G) stmts(d int, ret ty, n int) string {
	xs := []string{}
	for i := 0; i < n; i++ {
		xs = append(xs, g.stmt(d, ret))
	}
	return strings.Join(xs, "\n")
}

func (g *G) block(d int, ret ty) string {
	if g.pick(2) == 0 {
		s := g.stmt(d, ret)
		if !strings.Contains(s, "\n") && !strings.HasPrefix(s, "if ") && !strings.HasPrefix(s, "-") && !strings.HasPrefix(s, "(") && !strings.HasPrefix(s, "[") && !strings.Contains(s, "->") {
			return s
		}
		return "{\n" + s + "\n}"
	}
	return "{\n" + g.stmts(d, ret, 1+g.pick(3)) + "\n}"
}

// fundef defines a function (or generator) in the current scope
func (g *G) fundef(d int, gen bool) string {
	prefix := "f"
	if gen {
		prefix = "n"
	}
	name := g.fresh(prefix)
	np := g.pick(3)
	info := &vinfo{name: name, t: tFn, gen: gen, ret: g.anyT()}
	g.push()
	ps := []string{}
	for i := 0; i < np; i++ {
		p := g.fresh("p")
		pt := g.anyT()
		if g.pick(8) == 0 {
			pt = tFn
			g.def(&vinfo{name: p, t: tFn, params: []ty{tInt}, ret: tInt})
		} else {
			g.def(&vinfo{name: p, t: pt, assign: true})
		}
		info.params = append(info.params, pt)
		ps = append(ps, p)
	}
	if np >= 2 && g.pick(12) == 0 {
		// a repeated parameter name: the earlier position is shadowed by the later one
		i := g.pick(np - 1)
		j := i + 1 + g.pick(np-1-i)
		sc := g.scopes[len(g.scopes)-1]
		for k, v := range sc {
			if v.name == ps[i] {
				g.scopes[len(g.scopes)-1] = append(sc[:k:k], sc[k+1:]...)
				break
			}
		}
		ps[i] = ps[j]
	}
	saveGen, saveFn := g.inGen, g.inFn
	g.inGen = gen
	g.inFn++
	body := g.stmts(d, info.ret, 1+g.pick(4))
	if gen {
		body += "\nyield " + g.expr(tInt, d)
		if g.pick(2) == 0 {
			body += "\n" + g.stmt(d, info.ret)
		}
	} else {
		// the last statement of a function is compiled in "returning" position
		switch g.pick(12) {
		case 0:
			body += "\nif " + g.expr(tBool, d) + " {\n" + g.expr(info.ret, d) + "\n} else {\n" + g.expr(info.ret, d) + "\n}"
		case 1: // a loop whose body always returns
			body += "\nwhile " + g.expr(tBool, d) + " return " + g.expr(info.ret, d)
		case 2: // a counted loop with a conditional return: falls through with the body's last value
			w := g.fresh("w")
			cond := w + " < 3"
			if g.pick(2) == 0 {
				cond = "lt(" + w + ", 3)"
			}
			if info.ret == tInt && g.pick(2) == 0 {
				// ... or the tail is a plain counting loop: its value is the last assignment (an int)
				body += "\n" + w + " = 0\nwhile " + cond + " " + w + " = " + w + " + 1"
			} else {
				body += "\n" + w + " = 0\nwhile " + cond + " {\n" + w + " = " + w + " + 1\nif " + g.expr(tBool, d) + " return " + g.expr(info.ret, d) + "\n}"
			}
		case 3:
			v := g.fresh("v")
			body += "\nfor " + v + " <- fromto(0, 3) if " + v + " == " + fmt.Sprint(g.pick(4)) + " return " + g.expr(info.ret, d)
		case 4:
			body += "\nif " + g.expr(tBool, d) + " return " + g.expr(info.ret, d) + "\n" + g.expr(info.ret, d)
		default:
			body += "\n" + g.expr(info.ret, d)
		}
	}
	g.inGen, g.inFn = saveGen, saveFn
	g.pop()
	g.def(info)
	return name + " = (" + strings.Join(ps, ", ") + ") -> {\n" + body + "\n}"
}

// session generates a list of top-level statements
// Session generates a list of top-level statements.
func (g *G) Session() []string {
	g.scopes = [][]*vinfo{nil}
	res := g.helpers()
	if g.pick(4) > 0 {
		// variables of every type from the start, so that operands are names as often as literals
		for _, b := range []struct {
			name, val string
			t         ty
		}{{"gsa", `"ab"`, tStr}, {"gsb", `"xyz"`, tStr}, {"gaa", "[1, 2]", tArr}, {"gab", "[7]", tArr}, {"gia", "3", tInt}, {"gfa", "1.5", tFloat}, {"gba", "true", tBool}} {
			res = append(res, b.name+" = "+b.val)
			g.def(&vinfo{name: b.name, t: b.t, assign: true})
		}
	}
	n := 3 + g.pick(8)
	for i := 0; i < n; i++ {
		g.fuel = 40 + g.pick(100)
		switch g.pick(9) {
		case 6, 7, 8:
			res = append(res, g.Template()...)
		case 0:
			res = append(res, g.fundef(1+g.pick(3), false))
		case 1:
			res = append(res, g.fundef(1+g.pick(3), true))
		default:
			s := g.stmt(1+g.pick(3), -1)
			if strings.Contains(s, "\n") && !strings.HasPrefix(s, "if ") && !strings.HasPrefix(s, "for ") && !isSingle(s) {
				s = "{\n" + s + "\n}"
			}
			res = append(res, s)
		}
	}
	return res
}

// isSingle reports whether multi-line s is one statement (a definition or a braced construct)
func isSingle(s string) bool {
	// a statement is single if all newlines are inside braces
	depth := 0
	for _, c := range s {
		switch c {
		case '{':
			depth++
		case '}':
			depth--
		case '\n':
			if depth == 0 {
				return false
			}
		}
	}
	return true
}

// template returns hand-shaped statement groups around closures, generators and recursion
func (g *G) Template() []string {
	n := fmt.Sprint
	a, b, c := g.fresh("t"), g.fresh("t"), g.fresh("t")
	k := 1 + g.pick(6)
	e := func() string { return g.expr(tInt, 1) }
	deepn := []int{1, 5, 40, 130, 300}[g.pick(5)]
	switch g.pick(17) {
	case 14, 15, 16: // every statement form as the tail of a function, with both outcomes: the value may be absent
		cond := []string{"c", "!c", "c & d", "c | d", "c == d", "d"}[g.pick(6)]
		// a body that starts with ( [ or - would continue the condition before it
		b := func() string {
			x := e()
			if strings.HasPrefix(x, "(") || strings.HasPrefix(x, "[") || strings.HasPrefix(x, "-") {
				return "{\n" + x + "\n}"
			}
			return x
		}
		tails := []string{
			"if " + cond + " " + b(),
			"if " + cond + " " + b() + " else " + b(),
			"if " + cond + " {\nif d " + b() + "\n}",
			"if " + cond + " {\nif d " + b() + " else " + b() + "\n} else {\nif !d " + b() + "\n}",
			"if " + cond + " return " + e(),
			"zi = 0\nwhile zi < " + n(g.pick(3)) + " {\nzi = zi + 1\nif " + cond + " zi * " + e() + "\n}",
			"for zv <- fromto(0, " + n(g.pick(3)) + ") if " + cond + " zv + " + e(),
			"for zv <- fromto(0, " + n(g.pick(3)) + ") {\nif " + cond + " return zv\n}",
			"if " + cond + " {\n" + e() + "\n}",
			"zq = " + e() + "\nif " + cond + " zq = zq + 1",
			"while " + cond + " return " + e(),
			// one branch returns, the other has a value: as a tail, and as the last statement of a loop body
			"if " + cond + " " + b() + " else return " + e(),
			"if " + cond + " return " + e() + " else " + b(),
			"zi = 0\nwhile zi < 2 {\nzi = zi + 1\nif " + cond + " zi else return 9\n}",
			"zi = 0\nwhile zi < 2 {\nzi = zi + 1\nif " + cond + " return 9 else zi * 3\n}",
			"for zv <- fromto(0, 3) if " + cond + " zv else return 7",
			"for zv <- fromto(0, 3) {\nif zv > 5 return zv else {\nif " + cond + " zv + 1\n}\n}",
			// loops that run zero times on one of the calls; the body's value is a variable, a literal or on the stack
			"zi = 0\nif " + cond + " zi = 3\nwhile zi < 3 zi = zi + 1",
			"zi = 0\nif " + cond + " zi = 3\nwhile lt(zi, 3) {\nzi = zi + 1\nzi\n}",
			"zi = 0\nif " + cond + " zi = 3\nwhile zi < 3 {\nzi = zi + 1\n" + n(g.pick(9)) + "\n}",
			"zi = 0\nif " + cond + " zi = 3\nwhile zi < 3 {\nzi = zi + 1\nzi * " + e() + "\n}",
			"zn = 3\nif " + cond + " zn = 0\nfor zv <- fromto(0, zn) zv",
			"zn = 3\nif " + cond + " zn = 0\nfor zv <- fromto(0, zn) zq = zv",
		}
		tail := tails[g.pick(len(tails))]
		pre := ""
		if g.pick(2) == 0 {
			pre = "zp = " + e() + "\n"
		}
		body := tail
		if pre != "" || strings.Contains(tail, "\n") && !isSingle(tail) || g.pick(2) == 0 {
			body = "{\n" + pre + tail + "\n}"
		}
		return []string{
			a + " = (c, d) -> " + body,
			"[" + a + "(true, true), " + a + "(true, false), " + a + "(false, true), " + a + "(false, false)]",
			a + "(false, " + []string{"true", "false"}[g.pick(2)] + ")",
		}
	case 0: // closure factory with update after capture and deep call
		return []string{
			"deep = (n) -> if n <= 0 0 else 1 + deep(n - 1)",
			a + " = (p) -> {\nx = p\ng = () -> x + p\ndeep(" + n(deepn) + ")\nx = x + " + e() + "\n[g(), x]\n}",
			"[" + a + "(" + e() + "), " + a + "(" + e() + ")]",
		}
	case 1: // closures in arrays escaping
		return []string{
			a + " = (p) -> {\nv = p * 2\n[() -> v, [(q) -> q + v + p]]\n}",
			b + " = " + a + "(" + e() + ")",
			"deep = (n) -> if n <= 0 0 else 89 + deep(n - 1)",
			"deep(" + n(deepn) + ")",
			c + " = " + b + "[0]",
			a + "x = " + b + "[1][0]",
			"[" + c + "(), " + a + "x(" + e() + ")]",
		}
	case 2: // identity passing
		return []string{
			"id = (z) -> z",
			a + " = () -> {\nx = " + e() + "\ng = () -> x\nh = id(g)\nx = x + 1\n[g(), h()]\n}",
			a + "()",
		}
	case 3: // map filter
		return []string{
			"map = (f, iter) -> for e <- iter() yield f(e)",
			"filter = (p, iter) -> for e <- iter() if p(e) yield e",
			a + " = []",
			"for x <- map((e) -> e * " + e() + ", () -> filter((e) -> e % 2 == 0, () -> fromto(0, " + n(k+3) + "))) " + a + " = " + a + " + [x]",
			a,
		}
	case 4: // zip with unequal
		return []string{
			"zip = (a, b) -> for x, y <- a(), b() yield [x, y]",
			a + " = []",
			"for p <- zip(() -> fromto(0, " + n(k) + "), () -> elems(\"abc\")) " + a + " = " + a + " + [p]",
			a,
		}
	case 5: // recursive generator
		return []string{
			b + " = (n) -> {\nif n <= 0 return 0\nfor v <- " + b + "(n - 1) yield v\nyield n\n}",
			a + " = []",
			"for v <- " + b + "(" + n(k) + ") " + a + " = " + a + " + [v * " + e() + "]",
			a,
		}
	case 6: // take with return in body
		return []string{
			"take = (n, it) -> {\nc = 0\nfor v <- it() {\nif c >= n return c\nyield v\nc = c + 1\n}\n}",
			a + " = 0",
			"for v <- take(" + n(k) + ", () -> fromto(0, 100)) " + a + " = " + a + " * 2 + v",
			a,
		}
	case 7: // top-level returns in nested loops, later loops
		return []string{
			"for i <- fromto(0, 4) for j <- fromto(0, 4) if i * 4 + j == " + n(k) + " return [i, j]",
			"for i <- fromto(0, 3) i",
			"{\n1\nreturn " + e() + "\n2\n}",
		}
	case 8: // value position yield
		return []string{
			a + " = () -> yield " + e(),
			b + " = () -> {\nq = " + a + "()\nyield q + 1\nq\n}",
			c + " = []",
			"for v <- " + b + "() {\nw = (v + " + e() + ") * 2\n" + c + " = " + c + " + [v, w]\n}",
			c,
		}
	case 9: // generator factory
		return []string{
			a + " = (p) -> {\nq = p + 1\n() -> {\nyield p\nyield q\nyield p + q\n}\n}",
			b + " = " + a + "(" + e() + ")",
			"mul = (x) -> x * 10",
			c + " = []",
			"for v <- " + b + "() " + c + " = " + c + " + [mul(v)]",
			c,
		}
	case 10: // wide frame + loop after small loop
		body := ""
		for i := 0; i < 150+g.pick(100); i++ {
			body += g.fresh("u") + " = " + n(i) + "\n"
		}
		last := g.fresh("u")
		return []string{
			a + " = (n) -> {\n" + body + last + " = 7\ns = 0\nfor i <- fromto(0, n) s = s + i + " + last + "\ns\n}",
			"{\nfor q <- fromto(0, 2) q\n" + a + "(" + n(k) + ")\n}",
			a + "(" + n(k) + ")",
		}
	case 11: // recursion with loops
		return []string{
			a + " = (n) -> {\nif n <= 0 return 0\nx = n\ny = " + a + "(n - 1)\nfor i <- fromto(0, 2) y = y + i\nx + y\n}",
			a + "(" + n(deepn) + ")",
		}
	case 12: // yielded closures stored
		return []string{
			a + " = () -> {\nv = 1\nyield () -> v\nv = 2\nyield () -> v\nv = 3\n}",
			"other = (n) -> {\nq = 100\nr = 200\nyield n\n}",
			"{\nfs = []\nfor f <- " + a + "() fs = fs + [f]\nfor z <- other(5) z\nfa = fs[0]\nfb = fs[1]\n[fa(), fb()]\n}",
		}
	default: // nested for with function return inside
		return []string{
			a + " = (n) -> {\nfor i <- fromto(0, n) {\nfor j <- fromto(0, n) {\nif i * j == " + n(k) + " return [i, j]\n}\n}\n}",
			"[" + a + "(5), " + a + "(2)]",
			a + "(4)",
		}
	}
}

// ---------------------------------------------------------------------------
// building blocks for the metamorphic checks

// TypeName names a generator type.
func TypeName(t ty) string {
	return []string{"int", "float", "bool", "string", "array", "function"}[t]
}

// Environment starts a session and returns a prelude defining id, nGlobals
// global variables of random types and nFuncs functions.
func (g *G) Environment(nGlobals, nFuncs int) []string {
	g.scopes = [][]*vinfo{nil}
	pre := append([]string{"id = (z) -> z"}, g.helpers()...)
	for k := 0; k < nGlobals; k++ {
		g.fuel = 30
		t := g.anyT()
		name := g.fresh("g")
		pre = append(pre, name+" = "+g.expr(t, 2))
		g.def(&vinfo{name: name, t: t, assign: true})
	}
	for k := 0; k < nFuncs; k++ {
		g.fuel = 40
		pre = append(pre, g.fundef(2, false))
	}
	return pre
}

// Expr generates an expression of a random type (depth at most d) in the
// current environment and returns its text and type name.
func (g *G) Expr(d int) (string, string) {
	g.fuel = 60
	t := g.anyT()
	return g.expr(t, d), TypeName(t)
}

// ExprOf generates an expression of the named type.
func (g *G) ExprOf(typ string, d int) string {
	g.fuel = 60
	for t := tInt; t <= tArr; t++ {
		if TypeName(t) == typ {
			return g.expr(t, d)
		}
	}
	panic("gen.ExprOf: " + typ)
}

// Stmt generates one top-level statement (possibly spanning lines; several
// statements are wrapped in a block).
func (g *G) Stmt(d int) string {
	g.fuel = 60
	s := g.stmt(d, -1)
	if strings.Contains(s, "\n") && !isSingle(s) {
		s = "{\n" + s + "\n}"
	}
	return s
}

// GlobalOf returns the name of a global variable of the named type, "" if none.
func (g *G) GlobalOf(typ string) string {
	for _, v := range g.scopes[0] {
		if TypeName(v.t) == typ && v.assign {
			return v.name
		}
	}
	return ""
}

// PureFunction defines a side-effect-free function in the current environment
// and returns its definition and two calls of it with generated arguments.
func (g *G) PureFunction(d int) (def, call, other string) {
	g.fuel = 60
	g.NoIO = true
	def = g.fundef(d, false)
	scope := g.scopes[len(g.scopes)-1]
	f := scope[len(scope)-1]
	g.fuel = 20
	call = g.call(f, 1)
	g.fuel = 20
	return def, call, g.call(f, 1)
}

// helpers defines the small functions index expressions call; their bodies
// use nested operators, i.e. the temp register.
func (g *G) helpers() []string {
	g.def(&vinfo{name: "one", t: tFn, ret: tInt})
	g.def(&vinfo{name: "inc", t: tFn, ret: tInt, params: []ty{tInt}})
	g.def(&vinfo{name: "lt", t: tFn, ret: tBool, params: []ty{tInt, tInt}})
	res := []string{"one = () -> (3 - 1) - 1", "inc = (x) -> (x + 2) - 1", "lt = (a, b) -> a < b"}
	if g.pick(5) == 0 {
		// the names of the built-ins are ordinary globals: a program may rebind them
		// (the bodies use nested operators, i.e. the temp register)
		switch g.pick(3) {
		case 0:
			res = append(res, "toa = (v) -> \"t\" + (\"o\" + \"a\")")
			g.def(&vinfo{name: "toa", t: tFn, ret: tStr, params: []ty{tInt}})
		case 1:
			res = append(res, "aton = (s) -> (#s + 1) * 2")
			g.def(&vinfo{name: "aton", t: tFn, ret: tInt, params: []ty{tStr}})
		default:
			res = append(res, "toa = (v) -> {\nw = [v]\n\"<\" + (\"\" + \">\")\n}")
			g.def(&vinfo{name: "toa", t: tFn, ret: tStr, params: []ty{tArr}})
		}
	}
	return res
}
