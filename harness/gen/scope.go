package gen

import (
	"fmt"
	"strings"

	"pgregory.net/rapid"
)

// Sessions around lexical scoping and isolation (property C04): a small pool
// of variable names is shared by globals, parameters, locals, loop variables
// and captured variables, so that every kind of shadowing occurs; functions
// are passed down and returned up (directly, in arrays, through an identity
// function, out of generators); callers check their own variables after calls.

// ScopeNames is the shared pool of variable names.
var ScopeNames = []string{"a", "b", "c", "x", "y", "n", "i", "v"}

// ScopeProbe is the statement listing every pool name at top level.
var ScopeProbe = "[" + strings.Join(ScopeNames, ", ") + "]"

// ScopeGen generates the sessions.
type ScopeGen struct {
	T       *rapid.T
	ctr     int
	globals map[string]bool // pool names bound at top level
	funcs   []scopeFn       // global functions defined so far
	// statistics
	Shadowing int // functions assigning a name that is also bound outside
	Escapes   int // closures leaving their definer
}

type scopeFn struct {
	name   string
	params int
	kind   string // "int": returns an int; "closure": returns a function of no arguments; "pair": returns an array of two closures; "gen": yields closures
}

type scopeEnv struct {
	locals map[string]bool // defined so far in this function (lexical order), incl. parameters
	outer  map[string]bool // defined so far in the immediately enclosing function (captured)
	cls    []scopeFn       // local closures returning an int
	depth  int
}

func (g *ScopeGen) pick(n int) int {
	if n <= 1 {
		return 0
	}
	return rapid.IntRange(0, n-1).Draw(g.T, "s")
}

func (g *ScopeGen) fresh(p string) string {
	g.ctr++
	n := g.ctr
	s := ""
	for {
		s = string(rune('a'+n%26)) + s
		n /= 26
		if n == 0 {
			break
		}
	}
	return p + s
}

func (g *ScopeGen) poolName() string { return ScopeNames[g.pick(len(ScopeNames))] }

// readable returns a name that reads as an int in env (mostly), or any pool name (rarely).
func (g *ScopeGen) readable(e *scopeEnv) string {
	cands := []string{}
	for _, n := range ScopeNames {
		if e != nil && (e.locals[n] || e.outer[n]) || g.globals[n] {
			cands = append(cands, n)
		}
	}
	if len(cands) == 0 || g.pick(12) == 0 {
		return g.poolName()
	}
	return cands[g.pick(len(cands))]
}

func (g *ScopeGen) intFn() (scopeFn, bool) {
	c := []scopeFn{}
	for _, f := range g.funcs {
		if f.kind == "int" {
			c = append(c, f)
		}
	}
	if len(c) == 0 {
		return scopeFn{}, false
	}
	return c[g.pick(len(c))], true
}

// intExpr generates an expression that evaluates to an int when its names are bound.
func (g *ScopeGen) intExpr(e *scopeEnv, d int) string {
	if d <= 0 {
		if g.pick(3) == 0 {
			return fmt.Sprint(g.pick(10))
		}
		return g.readable(e)
	}
	switch g.pick(7) {
	case 0, 1:
		return g.intExpr(e, d-1) + " " + []string{"+", "-", "*"}[g.pick(3)] + " " + g.intExpr(e, d-1)
	case 2:
		if f, ok := g.intFn(); ok && (e == nil || e.depth < 2) {
			args := []string{}
			for i := 0; i < f.params; i++ {
				args = append(args, g.intExpr(e, d-1))
			}
			return f.name + "(" + strings.Join(args, ", ") + ")"
		}
	case 3:
		if e != nil && len(e.cls) > 0 {
			cl := e.cls[g.pick(len(e.cls))]
			args := []string{}
			for i := 0; i < cl.params; i++ {
				args = append(args, g.intExpr(e, d-1))
			}
			return cl.name + "(" + strings.Join(args, ", ") + ")"
		}
	}
	return g.intExpr(e, 0)
}

// body generates the statements of a function body and the name of its result.
func (g *ScopeGen) body(e *scopeEnv, n int, shadowed *bool) []string {
	lines := []string{}
	assign := func(name string) {
		if !e.locals[name] && (g.globals[name] || e.outer[name]) {
			*shadowed = true
		}
	}
	for k := 0; k < n; k++ {
		switch g.pick(10) {
		case 9: // a lock-step loop whose variables are pool names, some of them locals already, then a new local
			nv := 2 + g.pick(2)
			lvs, its, seen := []string{}, []string{}, map[string]bool{}
			for len(lvs) < nv {
				lv := g.poolName()
				if seen[lv] {
					continue
				}
				seen[lv] = true
				lvs = append(lvs, lv)
				its = append(its, fmt.Sprintf("fromto(%d, %d)", 10*len(lvs), 10*len(lvs)+2+g.pick(2)))
			}
			tgt := g.poolName()
			for seen[tgt] {
				tgt = g.poolName()
			}
			for _, lv := range lvs {
				assign(lv)
			}
			assign(tgt)
			first := tgt + " = " + strings.Join(lvs, " * 100 + ")
			if e.locals[tgt] && g.pick(2) == 0 {
				first = tgt + " = " + tgt + " + " + strings.Join(lvs, " * 100 + ")
			}
			lines = append(lines, "for "+strings.Join(lvs, ", ")+" <- "+strings.Join(its, ", ")+" {\n"+first+"\n}")
			for _, lv := range lvs {
				e.locals[lv] = true
			}
			e.locals[tgt] = true
		case 0, 1, 2: // assignment, possibly of a name bound outside (shadowing) and reading it
			name := g.poolName()
			rhs := g.intExpr(e, 1+g.pick(2))
			if g.pick(3) == 0 {
				rhs = name + " + " + fmt.Sprint(1+g.pick(3)) // a = a + 1: reads the outer binding the first time
				if !e.locals[name] && !g.globals[name] && !e.outer[name] {
					rhs = fmt.Sprint(g.pick(9))
				}
			}
			assign(name)
			lines = append(lines, name+" = "+rhs)
			e.locals[name] = true
		case 3: // a loop whose variable is a pool name, accumulating into a local
			lv := g.poolName()
			accs := []string{}
			for _, nme := range ScopeNames {
				if e.locals[nme] && nme != lv {
					accs = append(accs, nme)
				}
			}
			if len(accs) == 0 {
				continue
			}
			acc := accs[g.pick(len(accs))]
			assign(lv)
			if g.pick(3) == 0 {
				// the bounds read a name, possibly the loop variable's own (bound outside, or not at all)
				from := g.readable(e)
				if g.pick(2) == 0 {
					from = lv
				}
				lines = append(lines, fmt.Sprintf("for %s <- fromto(%s, %s + %d) %s = %s + %s", lv, from, from, 1+g.pick(3), acc, acc, lv))
			} else {
				lines = append(lines, fmt.Sprintf("for %s <- fromto(0, %d) %s = %s + %s", lv, 1+g.pick(3), acc, acc, lv))
			}
			e.locals[lv] = true
		case 4: // conditional assignment of an already defined local
			for _, nme := range ScopeNames {
				if e.locals[nme] {
					lines = append(lines, fmt.Sprintf("if %s > %d %s = %s", g.intExpr(e, 1), g.pick(5), nme, g.intExpr(e, 1)))
					break
				}
			}
		case 5: // a local closure capturing what is defined so far
			if e.depth >= 2 {
				continue
			}
			cl := g.fresh("k")
			inner := &scopeEnv{locals: map[string]bool{}, outer: e.locals, depth: e.depth + 1}
			if g.pick(2) == 0 {
				lines = append(lines, cl+" = () -> "+g.intExpr(inner, 1+g.pick(2)))
				e.cls = append(e.cls, scopeFn{name: cl})
			} else {
				// an inner function with its own parameters and locals that shadow this function's
				ps := g.params(inner)
				ilines := g.body(inner, 1+g.pick(3), shadowed)
				ilines = append(ilines, g.intExpr(inner, 2))
				lines = append(lines, cl+" = ("+strings.Join(ps, ", ")+") -> {\n"+strings.Join(ilines, "\n")+"\n}")
				e.cls = append(e.cls, scopeFn{name: cl, params: len(ps)})
			}
		case 6: // call for its effect only: must not disturb anything here
			if f, ok := g.intFn(); ok && e.depth < 2 {
				args := []string{}
				for i := 0; i < f.params; i++ {
					args = append(args, g.intExpr(e, 1))
				}
				lines = append(lines, f.name+"("+strings.Join(args, ", ")+")")
			}
		default:
			name := g.poolName()
			assign(name)
			lines = append(lines, name+" = "+fmt.Sprint(g.pick(20)))
			e.locals[name] = true
		}
	}
	return lines
}

// locals lists the defined pool names of env as an array expression.
func localsProbe(e *scopeEnv) string {
	xs := []string{}
	for _, n := range ScopeNames {
		if e.locals[n] {
			xs = append(xs, n)
		}
	}
	return "[" + strings.Join(xs, ", ") + "]"
}

func (g *ScopeGen) params(e *scopeEnv) []string {
	ps := []string{}
	seen := map[string]bool{}
	for i := g.pick(4); i > 0; i-- {
		p := g.poolName()
		if seen[p] && g.pick(3) != 0 {
			// now and then a parameter name is repeated: the last one counts
			continue
		}
		seen[p] = true
		ps = append(ps, p)
		e.locals[p] = true
	}
	return ps
}

// FunctionDef defines a new global function of a random kind.
func (g *ScopeGen) FunctionDef() string {
	e := &scopeEnv{locals: map[string]bool{}, outer: map[string]bool{}}
	ps := g.params(e)
	shadowed := false
	name := g.fresh("f")
	lines := g.body(e, 1+g.pick(6), &shadowed)
	kind := "int"
	switch g.pick(8) {
	case 0: // returns a closure over its variables, after updating them
		inner := &scopeEnv{locals: map[string]bool{}, outer: e.locals, depth: 1}
		cl := "() -> " + g.intExpr(inner, 2)
		if g.pick(2) == 0 {
			ilines := g.body(inner, 1+g.pick(3), &shadowed)
			ilines = append(ilines, g.intExpr(inner, 2))
			cl = "() -> {\n" + strings.Join(ilines, "\n") + "\n}"
		}
		if g.pick(2) == 0 {
			cv := g.fresh("k")
			lines = append(lines, cv+" = "+cl)
			lines = append(lines, g.body(e, 1+g.pick(2), &shadowed)...)
			cl = cv
		}
		lines = append(lines, cl)
		kind = "closure"
		g.Escapes++
	case 1: // returns closures inside an array / through an identity function
		inner := &scopeEnv{locals: map[string]bool{}, outer: e.locals, depth: 1}
		a, b := "() -> "+g.intExpr(inner, 1), "() -> "+g.intExpr(inner, 2)
		lines = append(lines, "ka = "+a, "kb = idf("+b+")")
		lines = append(lines, g.body(e, g.pick(3), &shadowed)...)
		lines = append(lines, "[ka, kb]")
		kind = "pair"
		g.Escapes++
	case 2: // a generator yielding closures over a variable it keeps changing
		if len(ps) == 0 {
			ps = []string{"n"}
			e.locals["n"] = true
		}
		lv := ps[0]
		lines = append(lines, fmt.Sprintf("yield () -> %s", lv), fmt.Sprintf("%s = %s + 1", lv, lv), fmt.Sprintf("yield () -> %s * 10", lv), fmt.Sprintf("%s = %s + 1", lv, lv))
		kind = "gen"
		g.Escapes++
	case 6: // closures written in a loop's iterator expression, collected and called after the loop
		inner := &scopeEnv{locals: map[string]bool{}, outer: e.locals, depth: 1}
		a, b := "() -> "+g.intExpr(inner, 1), "() -> "+g.intExpr(inner, 2)
		lines = append(lines, "zr = []", "for zf <- elems(["+a+", "+b+"]) zr = zr + [zf]", "zfa = zr[0]", "zfb = zr[1]")
		lines = append(lines, g.body(e, g.pick(2), &shadowed)...)
		lines = append(lines, "[zfa(), zfb()]")
		kind = "list"
		g.Escapes++
	case 3: // many variables: wide frames keep their values
		wide := []string{}
		for i := 0; i < 5+g.pick(36); i++ {
			w := g.fresh("w")
			lines = append(lines, fmt.Sprintf("%s = %d", w, i))
			wide = append(wide, w)
		}
		lines = append(lines, g.body(e, 2, &shadowed)...)
		lines = append(lines, wide[0]+" + "+wide[len(wide)-1]+" + "+g.intExpr(e, 1))
	case 4: // a caller that checks its own variables after calling others
		before := localsProbe(e)
		if f, ok := g.intFn(); ok {
			args := []string{}
			for i := 0; i < f.params; i++ {
				args = append(args, g.readable(e))
			}
			lines = append(lines, "zbefore = "+before, "zres = "+f.name+"("+strings.Join(args, ", ")+")", "[zbefore == "+before+", zres]")
		} else {
			lines = append(lines, g.intExpr(e, 2))
		}
	case 5: // recursion: each level has its own variables; the counter is not a pool name
		ps = append([]string{"zn"}, ps...)
		keep := g.poolName()
		lines = append([]string{"if zn <= 0 return 0", fmt.Sprintf("%s = zn * 7", keep)}, lines...)
		e.locals[keep] = true
		rec := name + "(zn - 1"
		for i := 1; i < len(ps); i++ {
			rec += ", " + ps[i]
		}
		rec += ")"
		lines = append(lines, "zr = "+rec, "zr + "+g.intExpr(e, 1))
	default:
		lines = append(lines, g.intExpr(e, 2))
	}
	if shadowed {
		g.Shadowing++
	}
	g.funcs = append(g.funcs, scopeFn{name: name, params: len(ps), kind: kind})
	return name + " = (" + strings.Join(ps, ", ") + ") -> {\n" + strings.Join(lines, "\n") + "\n}"
}

// Session generates the top-level statements; after every statement the probe
// of all pool names follows.
func (g *ScopeGen) Session() []string {
	g.globals = map[string]bool{}
	stmts := []string{"idf = (z) -> z", "deep = (q) -> if q <= 0 0 else 1 + deep(q - 1)"}
	top := func(s string) { stmts = append(stmts, s, ScopeProbe) }
	// some globals first
	for i := 2 + g.pick(4); i > 0; i-- {
		n := g.poolName()
		top(fmt.Sprintf("%s = %d", n, g.pick(50)))
		g.globals[n] = true
	}
	steps := 4 + g.pick(8)
	for s := 0; s < steps; s++ {
		switch c := g.pick(10); {
		case c <= 2 || len(g.funcs) == 0:
			top(g.FunctionDef())
		case c == 3: // global assignment
			n := g.poolName()
			top(n + " = " + g.intExpr(nil, 2))
			g.globals[n] = true
		case c == 4: // two-level nesting per Readme: resolves to the global (or nil)
			f := g.fresh("f")
			n1, n2 := g.poolName(), g.poolName()
			top(fmt.Sprintf("%s = (%s) -> (%s) -> () -> %s + %s", f, n1, n2, n1, n2))
			top(fmt.Sprintf("zfirst = %s(%d)", f, g.pick(9)))
			top(fmt.Sprintf("zsecond = zfirst(%d)", g.pick(9)))
			top("zsecond()")
		default: // call a function according to its kind
			f := g.funcs[g.pick(len(g.funcs))]
			args := []string{}
			for i := 0; i < f.params; i++ {
				args = append(args, g.intExpr(nil, 1))
			}
			call := f.name + "(" + strings.Join(args, ", ") + ")"
			switch f.kind {
			case "int":
				top(call)
			case "list":
				// two activations with different arguments in one statement (recycled iterator contexts)
				args2 := []string{}
				for i := 0; i < f.params; i++ {
					args2 = append(args2, g.intExpr(nil, 1))
				}
				top("[" + call + ", " + f.name + "(" + strings.Join(args2, ", ") + ")]")
				top("for zq <- fromto(0, 2) " + call)
			case "closure":
				top("zc = " + call)
				top(fmt.Sprintf("deep(%d)", []int{0, 50, 300}[g.pick(3)]))
				top("zc()")
				top("[zc(), zc()]")
			case "pair":
				top("zp = " + call)
				top(fmt.Sprintf("deep(%d)", []int{0, 50, 300}[g.pick(3)]))
				top("zpa = zp[0]")
				top("zpb = zp[1]")
				top("[zpa(), zpb()]")
			case "gen":
				top("{\nzfs = []\nfor zf <- " + call + " zfs = zfs + [zf]\nzfa = zfs[0]\nzfb = zfs[1]\ndeep(100)\n[zfa(), zfb()]\n}")
			}
		}
	}
	return stmts
}
