// Package run drives the real calc pipeline (parser, STRewrite, bytecode
// compiler, VM) in process, one Session per generated session, and captures
// what it writes to standard output.
package run

import (
	"errors"
	"fmt"
	"io"
	"os"
	"runtime/debug"
	"strconv"
	"strings"

	"github.com/paulsonkoly/calc/builtin"
	"github.com/paulsonkoly/calc/memory"
	"github.com/paulsonkoly/calc/parser"
	"github.com/paulsonkoly/calc/types/bytecode"
	"github.com/paulsonkoly/calc/types/compresult"
	"github.com/paulsonkoly/calc/types/dbginfo"
	"github.com/paulsonkoly/calc/types/node"
	"github.com/paulsonkoly/calc/types/value"
	"github.com/paulsonkoly/calc/vm"

	"verif/harness/ref"
)

// Session is one interpreter instance: code and data segments, VM and memory
// persist between statements as in the REPL.
type Session struct {
	CR compresult.Type
	VM *vm.Type
	M  *memory.Type
}

// NewSession creates a fresh VM with the built-ins loaded and run.
func NewSession() *Session {
	m := memory.New()
	cs := []bytecode.Type{}
	ds := []value.Type{}
	dbg := make(dbginfo.Type)
	cr := compresult.Type{CS: &cs, DS: &ds, Dbg: &dbg}
	builtin.Load(cr)
	v := vm.New(m, cr)
	if _, err := v.Run(false); err != nil {
		panic("run: builtins failed: " + err.Error())
	}
	return &Session{cr, v, m}
}

var capFile *os.File

func capture() *os.File {
	if capFile == nil {
		dir := "/dev/shm"
		if st, err := os.Stat(dir); err != nil || !st.IsDir() {
			dir = os.TempDir()
		}
		f, err := os.CreateTemp(dir, "verif-cap-")
		if err != nil {
			panic(err)
		}
		os.Remove(f.Name()) // stays open, disappears with the process
		capFile = f
	}
	return capFile
}

// Capture runs f with os.Stdout redirected and returns what was written.
func Capture(f func()) (out string) {
	cf := capture()
	if err := cf.Truncate(0); err != nil {
		panic(err)
	}
	if _, err := cf.Seek(0, 0); err != nil {
		panic(err)
	}
	real := os.Stdout
	os.Stdout = cf
	defer func() {
		os.Stdout = real
		if _, err := cf.Seek(0, 0); err != nil {
			panic(err)
		}
		b, err := io.ReadAll(cf)
		if err != nil {
			panic(err)
		}
		out = string(b)
	}()
	f()
	return
}

// Res is the outcome of running one piece of source text.
type Res struct {
	ParseErr   *parser.Error // the text was rejected
	CompileErr error         // refused at compile time (size limits)
	Val        ref.V         // final value (result mode, no error)
	Err        ref.ErrClass  // runtime error class, "" if none; "other: ..." for an undocumented error
	Out        string        // everything written, including an error report
	Panic      string        // the Go panic that escaped the pipeline, "" if none
	Stack      string        // its stack
	Lim        bool          // step limit exceeded
	Resid      string        // machine state left behind after a successful statement, "" if clean
	Steps      int           // VM instructions dispatched
	Stmts      int           // statements executed
}

// Report is the part of Out from "RUNTIME ERROR" on ("" if none).
func (r Res) Report() string {
	if i := strings.Index(r.Out, "RUNTIME ERROR"); i >= 0 {
		return r.Out[i:]
	}
	return ""
}

// Written is Out without the error report.
func (r Res) Written() string {
	if i := strings.Index(r.Out, "RUNTIME ERROR"); i >= 0 {
		return r.Out[:i]
	}
	return r.Out
}

type stepLim struct{}

// compile calls node.ByteCode / node.ByteCodeNoStck whatever their result list is.
func compile(f any, st node.Type, cr compresult.Type) error {
	switch f := f.(type) {
	case func(node.ByteCoder, compresult.Type):
		f(st, cr)
		return nil
	case func(node.ByteCoder, compresult.Type) error:
		return f(st, cr)
	}
	panic(fmt.Sprintf("run: unknown compiler signature %T", f))
}

var (
	byteCode       any = node.ByteCode
	byteCodeNoStck any = node.ByteCodeNoStck
)

// Run parses src and runs every statement in it. discard selects the file
// mode code generation (ByteCodeNoStck + Run(false)). maxSteps bounds the VM
// instructions (0 = unbounded).
func (s *Session) Run(src string, discard bool, maxSteps int) (res Res) {
	res.Out = Capture(func() {
		ast, perr := parseSafely(src, &res)
		if res.Panic != "" {
			return
		}
		if perr != nil {
			res.ParseErr = perr
			return
		}
		s.runTree(ast, discard, maxSteps, &res)
	})
	return
}

func parseSafely(src string, res *Res) (ast []node.Type, perr *parser.Error) {
	defer func() {
		if r := recover(); r != nil {
			res.Panic = "parse: " + fmt.Sprint(r)
			res.Stack = string(debug.Stack())
		}
	}()
	return parser.Parse(src)
}

// RunTree runs already parsed statements.
func (s *Session) RunTree(ast []node.Type, discard bool, maxSteps int) (res Res) {
	res.Out = Capture(func() { s.runTree(ast, discard, maxSteps, &res) })
	return
}

func (s *Session) runTree(ast []node.Type, discard bool, maxSteps int, res *Res) {
	steps := 0
	res.Val = ref.Nil{} // text without a statement has no value
	vm.VerifStep = func() {
		steps++
		if maxSteps > 0 && steps > maxSteps {
			panic(stepLim{})
		}
	}
	defer func() {
		vm.VerifStep = nil
		res.Steps = steps
		if r := recover(); r != nil {
			if _, ok := r.(stepLim); ok {
				res.Lim = true
				return
			}
			res.Panic = fmt.Sprint(r)
			res.Stack = string(debug.Stack())
		}
	}()
	for _, st := range ast {
		st = st.STRewrite(node.SymTbl{})
		var v value.Type
		var err error
		if discard {
			if cerr := compile(byteCodeNoStck, st, s.CR); cerr != nil {
				res.CompileErr = cerr
				return
			}
			v, err = s.VM.Run(false)
		} else {
			if cerr := compile(byteCode, st, s.CR); cerr != nil {
				res.CompileErr = cerr
				return
			}
			v, err = s.VM.Run(true)
		}
		res.Stmts++
		if err != nil {
			res.Err = Classify(err)
			res.Val = ref.Nil{}
			return
		}
		if !discard {
			res.Val = ToV(v)
		}
		res.Resid = s.Residue()
		if res.Resid != "" {
			return
		}
	}
}

// Residue describes what a finished statement left behind in the machine, ""
// if it is clean.
func (s *Session) Residue() string {
	ip, ch, m := s.VM.VerifMain()
	sp, fp, cl := m.VerifSP(), m.VerifFrames(), m.VerifClosures()
	if sp != 0 || fp != 0 || cl != 0 || ch != 0 || ip != len(*s.CR.CS) {
		return fmt.Sprintf("sp=%d frames=%d closures=%d contexts=%d ip=%d/%d", sp, fp, cl, ch, ip, len(*s.CR.CS))
	}
	return ""
}

// Classify maps a VM error to the class names of the reference.
func Classify(err error) ref.ErrClass {
	switch {
	case errors.Is(err, value.ErrNil):
		return ref.ENil
	case errors.Is(err, value.ErrType):
		return ref.EType
	case errors.Is(err, value.ErrZeroDiv):
		return ref.EZero
	case errors.Is(err, value.ErrIndex):
		return ref.EIndex
	case errors.Is(err, vm.ErrArity):
		return ref.EArity
	case errors.Is(err, vm.ErrConversion):
		return ref.EConv
	case strings.HasPrefix(err.Error(), "read error"):
		return ref.ERead
	}
	return ref.ErrClass("other: " + err.Error())
}

// ToV converts a VM value structurally through its exported accessors.
func ToV(v value.Type) ref.V {
	if v.IsNil() {
		return ref.Nil{}
	}
	if i, ok := v.ToInt(); ok {
		return i
	}
	if b, ok := v.ToBool(); ok {
		return b
	}
	if s, ok := v.ToString(); ok {
		return s
	}
	if a, ok := v.ToArray(); ok {
		r := make(ref.Arr, 0, len(a))
		for _, e := range a {
			r = append(r, ToV(e))
		}
		return r
	}
	if _, ok := v.ToFunction(); ok {
		return &ref.Fn{}
	}
	// the remaining kind is float
	f, err := strconv.ParseFloat(v.String(), 64)
	if err != nil {
		panic("run.ToV: " + v.String())
	}
	return f
}

// FromV converts a reference value to a VM value.
func FromV(v ref.V) value.Type {
	switch x := v.(type) {
	case ref.Nil:
		return value.Nil
	case int:
		return value.NewInt(x)
	case float64:
		return value.NewFloat(x)
	case bool:
		return value.NewBool(x)
	case string:
		return value.NewString(x)
	case ref.Arr:
		a := make([]value.Type, 0, len(x))
		for _, e := range x {
			a = append(a, FromV(e))
		}
		return value.NewArray(a)
	case *ref.Fn:
		return value.NewFunction(0, nil, len(x.Params), len(x.Params))
	}
	panic(fmt.Sprintf("run.FromV: %T", v))
}
