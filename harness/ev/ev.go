// Package ev collects what a check actually covered and writes it as an
// evidence file (schema /root/.vp/EVIDENCE.schema.json). With several shards
// each process writes a partial file (including the hashes of its distinct
// non-trivial cases) that the driver merges.
package ev

import (
	"encoding/json"
	"fmt"
	"hash/fnv"
	"os"
	"sort"
	"strconv"
	"time"
)

// Recorder accumulates counters for one property check.
type Recorder struct {
	ID          string
	Rule        string
	Assumptions []string
	Extra       map[string]any

	evaluations int
	nontrivial  map[uint64]struct{}
	samples     []any
	seen        int
	hist        map[string]int
	skipped     map[string]int
	start       time.Time
}

// New creates a recorder for property id with its non-triviality rule.
func New(id, rule string, assumptions ...string) *Recorder {
	return &Recorder{
		ID: id, Rule: rule, Assumptions: assumptions,
		Extra:      map[string]any{},
		nontrivial: map[uint64]struct{}{},
		hist:       map[string]int{},
		skipped:    map[string]int{},
		start:      time.Now(),
	}
}

func hash(s string) uint64 {
	h := fnv.New64a()
	h.Write([]byte(s))
	return h.Sum64()
}

const maxSample = 1500

func clip(s string) string {
	if len(s) > maxSample {
		return s[:maxSample] + fmt.Sprintf("... (%d bytes)", len(s))
	}
	return s
}

// Case records one generated case: its text (the identity used for
// distinctness), whether it is non-trivial by the rule, and feature labels for
// the histogram.
func (r *Recorder) Case(text string, nontrivial bool, features ...string) {
	r.evaluations++
	for _, f := range features {
		r.hist[f]++
	}
	if !nontrivial {
		return
	}
	h := hash(text)
	if _, ok := r.nontrivial[h]; ok {
		return
	}
	r.nontrivial[h] = struct{}{}
	r.seen++
	// keep the first 4 and a rotating window of later ones
	switch {
	case len(r.samples) < 8:
		r.samples = append(r.samples, clip(text))
	case r.seen%97 == 0:
		r.samples[4+(r.seen/97)%4] = clip(text)
	}
}

// Count adds to a histogram label without counting a case.
func (r *Recorder) Count(label string, n int) { r.hist[label] += n }

// Skip counts a generated case that was not checked, by reason.
func (r *Recorder) Skip(reason string) { r.skipped[reason]++ }

// Evaluations is the number of cases recorded so far.
func (r *Recorder) Evaluations() int { return r.evaluations }

// Write writes the (partial) evidence file named by VERIF_EVIDENCE_PART, if set.
func (r *Recorder) Write(violations int) {
	path := os.Getenv("VERIF_EVIDENCE_PART")
	if path == "" {
		return
	}
	tier := os.Getenv("VERIF_TIER")
	if tier != "thorough" {
		tier = "quick"
	}
	seed, _ := strconv.Atoi(os.Getenv("VERIF_SEED"))
	hashes := make([]string, 0, len(r.nontrivial))
	for h := range r.nontrivial {
		hashes = append(hashes, strconv.FormatUint(h, 16))
	}
	sort.Strings(hashes)
	cov := map[string]any{
		"evaluations":         r.evaluations,
		"distinct_nontrivial": len(r.nontrivial),
		"rule":                r.Rule,
		"samples":             r.samples,
		"features":            r.hist,
		"skipped":             r.skipped,
	}
	for k, v := range r.Extra {
		cov[k] = v
	}
	if r.samples == nil {
		cov["samples"] = []any{}
	}
	doc := map[string]any{
		"property_id": r.ID,
		"tier":        tier,
		"seed":        seed,
		"level":       "exploration",
		"coverage":    cov,
		"assumptions": r.Assumptions,
		"wall_s":      time.Since(r.start).Seconds(),
		"violations":  violations,
		"_hashes":     hashes,
	}
	b, err := json.MarshalIndent(doc, "", " ")
	if err != nil {
		panic(err)
	}
	if err := os.WriteFile(path, b, 0o644); err != nil {
		panic(err)
	}
}

// Repro prints the reproducible unit of a failing case on stderr; the driver
// stores the last such line as the replay file.
func Repro(id, kind string, payload any) {
	b, err := json.Marshal(map[string]any{"property": id, "kind": kind, "case": payload})
	if err != nil {
		panic(err)
	}
	fmt.Fprintf(os.Stderr, "\nREPRO %s\n", b)
}
