package props

import (
	"encoding/json"
	"fmt"
	"math"
	"strings"
	"testing"

	"pgregory.net/rapid"

	"github.com/paulsonkoly/calc/types/bytecode"
	"github.com/paulsonkoly/calc/types/value"

	"verif/harness/ev"
	"verif/harness/ref"
	"verif/harness/run"
)

// C11 Operators obey the documented value algebra on every operand pair.
//
// Every exported operator of types/value is compared with the reference value
// model (result or error class) on generated operand tuples, all 7x7 kind
// pairings are enumerated in every run, and the algebraic laws of the property
// are checked directly on the implementation.

const c11Rule = "operand tuples over nil, int (boundary set: 0, +-1, +-2, 63, 64, +-2^31, +-2^53+-1, min, max, plus random), float (+-0, +-Inf, NaN, subnormal, random), bool, string, array (empty, nested, mixed), function, for all 17 binary and 4 unary operators and both index forms with indices in [-2, len+2]; " +
	"all kind pairings enumerated exhaustively per operator in every run; non-trivial = every tuple (each is one operator application compared with the model plus the laws); distinct by operator and operand rendering"

var c11Ints = []int{0, 1, -1, 2, -2, 3, 7, 63, 64, 65, 1 << 31, -(1 << 31), 1<<53 + 1, 1<<53 - 1, -(1<<53 + 1), math.MinInt64, math.MaxInt64, math.MinInt64 + 1, 10, 100}
var c11Floats = []float64{0, math.Copysign(0, -1), 1, -1, 0.5, 2.5, -2.5, math.Inf(1), math.Inf(-1), math.NaN(), 5e-324, 1e308, 1 << 53, 1<<53 + 2, 3, 7, 9223372036854775808.0, -9223372036854775808.0, 4611686018427387904.0, 1e19, -1e19, 9223372036854774784.0}
var c11Strings = []string{"", "a", "ab", "apple", "x\ny", "é", "12", "1.5"}

func genValue(t *rapid.T, depth int) ref.V {
	switch rapid.IntRange(0, 8).Draw(t, "kind") {
	case 0:
		return ref.Nil{}
	case 1, 2:
		if rapid.Bool().Draw(t, "boundary") {
			return rapid.SampledFrom(c11Ints).Draw(t, "int")
		}
		return rapid.Int().Draw(t, "int")
	case 3:
		if rapid.Bool().Draw(t, "boundary") {
			return rapid.SampledFrom(c11Floats).Draw(t, "float")
		}
		return rapid.Float64().Draw(t, "float")
	case 4:
		return rapid.Bool().Draw(t, "bool")
	case 5:
		return rapid.SampledFrom(c11Strings).Draw(t, "string")
	case 6:
		return &ref.Fn{}
	default:
		if depth <= 0 {
			return ref.Arr{}
		}
		n := rapid.IntRange(0, 4).Draw(t, "len")
		a := ref.Arr{}
		for i := 0; i < n; i++ {
			a = append(a, genValue(t, depth-1))
		}
		return a
	}
}

var c11BinOps = []string{"+", "-", "*", "/", "%", "<", ">", "<=", ">=", "==", "!=", "&", "|", "<<", ">>"}
var c11UnOps = []string{"#", "!", "~"}

var opCodes = map[string]bytecode.OpCode{
	"+": bytecode.ADD, "-": bytecode.SUB, "*": bytecode.MUL, "/": bytecode.DIV,
	"<": bytecode.LT, ">": bytecode.GT, "<=": bytecode.LE, ">=": bytecode.GE,
	"==": bytecode.EQ, "!=": bytecode.NE, "&": bytecode.AND, "|": bytecode.OR, "<<": bytecode.LSH, ">>": bytecode.RSH,
}

// applyImpl applies an operator of types/value; panics are reported.
func applyImpl(op string, args ...value.Type) (v value.Type, err error, panicked string) {
	defer func() {
		if x := recover(); x != nil {
			panicked = fmt.Sprint(x)
		}
	}()
	a := args[0]
	switch op {
	case "+", "-", "*", "/":
		v, err = a.Arith(opCodes[op], args[1])
	case "%":
		v, err = a.Mod(args[1])
	case "<", ">", "<=", ">=":
		v, err = a.Relational(opCodes[op], args[1])
	case "==", "!=":
		v, err = a.Eq(opCodes[op], args[1])
	case "&", "|":
		v, err = a.Logic(opCodes[op], args[1])
	case "<<", ">>":
		v, err = a.Shift(opCodes[op], args[1])
	case "#":
		v, err = a.Len()
	case "!":
		v, err = a.Not()
	case "~":
		v, err = a.Flip()
	case "index":
		v, err = a.Index(args[1:]...)
	default:
		panic("applyImpl: " + op)
	}
	return
}

func applyRef(op string, args ...ref.V) (ref.V, *ref.RefErr) {
	return ref.Try(func() ref.V {
		switch op {
		case "#", "!", "~":
			return ref.UnOp(op, args[0])
		case "index":
			return ref.Index(args[0], args[1:]...)
		}
		return ref.BinOp(op, args[0], args[1])
	})
}

func renderArgs(op string, args []ref.V) string {
	s := op
	for _, a := range args {
		s += " | " + ref.Kind(a) + ":" + ref.Str(a)
	}
	return s
}

// c11Check compares one operator application and returns "" if fine.
func c11Check(op string, args ...ref.V) string {
	vargs := make([]value.Type, len(args))
	for i, a := range args {
		vargs[i] = run.FromV(a)
	}
	got, err, panicked := applyImpl(op, vargs...)
	if panicked != "" {
		return "panics: " + panicked
	}
	want, werr := applyRef(op, args...)
	if werr != nil {
		if err == nil {
			return fmt.Sprintf("gives %s, documented: %s", got.String(), werr.Class)
		}
		if c := run.Classify(err); !werr.Accepts(c) {
			return fmt.Sprintf("fails with %q, documented: %q", c, werr.Class)
		}
		return ""
	}
	if err != nil {
		return fmt.Sprintf("fails with %q, documented result %s", run.Classify(err), ref.Str(want))
	}
	gv := run.ToV(got)
	if (op == "<<" || op == ">>") && !ref.ShiftPinned(args[0], args[1]) {
		if _, ok := gv.(int); !ok {
			return fmt.Sprintf("gives %s %s, documented: an int", ref.Kind(gv), ref.Str(gv))
		}
		return ""
	}
	if !ref.Equiv(gv, want) {
		return fmt.Sprintf("gives %s %s, documented %s %s", ref.Kind(gv), ref.Str(gv), ref.Kind(want), ref.Str(want))
	}
	return ""
}

// c11CheckSelf applies a binary operator to one value object as both operands
// (x op x), and to x and a full-range slice of x sharing its storage; the
// documented result does not depend on the operands being the same object.
func c11CheckSelf(op string, a ref.V) string {
	x := run.FromV(a)
	operands := [][2]value.Type{{x, x}}
	if _, ok := a.(ref.Arr); ok {
		n := len(a.(ref.Arr))
		if sl, err := x.Index(value.NewInt(0), value.NewInt(n)); err == nil {
			operands = append(operands, [2]value.Type{x, sl}, [2]value.Type{sl, x})
		}
	}
	want, werr := applyRef(op, a, a)
	for _, pair := range operands {
		got, err, panicked := applyImpl(op, pair[0], pair[1])
		if panicked != "" {
			return "panics: " + panicked
		}
		if werr != nil {
			if err == nil {
				return fmt.Sprintf("on one object as both operands gives %s, documented: %s", got.String(), werr.Class)
			}
			if c := run.Classify(err); !werr.Accepts(c) {
				return fmt.Sprintf("on one object as both operands fails with %q, documented: %q", c, werr.Class)
			}
			continue
		}
		if err != nil {
			return fmt.Sprintf("on one object as both operands fails with %q, documented result %s", run.Classify(err), ref.Str(want))
		}
		if (op == "<<" || op == ">>") && !ref.ShiftPinned(a, a) {
			continue
		}
		if gv := run.ToV(got); !ref.Equiv(gv, want) {
			return fmt.Sprintf("on one object as both operands gives %s, documented %s", ref.Str(gv), ref.Str(want))
		}
	}
	return ""
}

// implBool applies a relational/equality operator that must succeed.
func implBool(op string, a, b ref.V) (bool, bool) {
	v, err, p := applyImpl(op, run.FromV(a), run.FromV(b))
	if err != nil || p != "" {
		return false, false
	}
	r, ok := v.ToBool()
	return r, ok
}

func isNum(v ref.V) bool {
	switch v.(type) {
	case int, float64:
		return true
	}
	return false
}

func isNaN(v ref.V) bool { f, ok := v.(float64); return ok && f != f }

// c11Laws checks the algebraic laws of the property on a pair of values.
func c11Laws(a, b ref.V) string {
	if ref.IsNil(a) || ref.IsNil(b) {
		// an absent operand is always an error
		for _, op := range c11BinOps {
			_, err, p := applyImpl(op, run.FromV(a), run.FromV(b))
			if p != "" {
				return op + " panics: " + p
			}
			if err == nil {
				return op + " accepts a nil operand"
			}
		}
		return ""
	}
	eq1, ok1 := implBool("==", a, b)
	eq2, ok2 := implBool("==", b, a)
	ne, ok3 := implBool("!=", a, b)
	if !ok1 || !ok2 || !ok3 {
		// nested nil inside arrays is an error for both directions
		return ""
	}
	if eq1 != eq2 {
		return "== is not symmetric"
	}
	if ne == eq1 {
		return "!= is not the negation of =="
	}
	if _, f := a.(*ref.Fn); f && eq1 {
		return "a function equals something"
	}
	if isNum(a) && isNum(b) {
		lt, _ := implBool("<", a, b)
		gt, _ := implBool(">", b, a)
		if lt != gt {
			return "a<b differs from b>a"
		}
		if !isNaN(a) && !isNaN(b) {
			le, _ := implBool("<=", a, b)
			gt2, _ := implBool(">", a, b)
			if le == gt2 {
				return "a<=b is not the negation of a>b"
			}
			ge, _ := implBool(">=", a, b)
			lt2, _ := implBool("<", a, b)
			if ge == lt2 {
				return "a>=b is not the negation of a<b"
			}
		}
	}
	if i, ok := a.(int); ok {
		if f := float64(i); float64(int(f)) == f && int(f) == i {
			if eq, ok := implBool("==", a, f); !ok || !eq {
				return "an int does not equal the float of the same value"
			}
		}
	}
	return ""
}

// c11IndexLaws checks the slicing laws on an array or string.
func c11IndexLaws(s ref.V) string {
	var n int
	switch x := s.(type) {
	case string:
		n = len(x)
	case ref.Arr:
		n = len(x)
	default:
		return ""
	}
	vs := run.FromV(s)
	for i := -2; i <= n+2; i++ {
		if why := c11Check("index", s, i); why != "" {
			return fmt.Sprintf("[%d] %s", i, why)
		}
		for j := -2; j <= n+2; j++ {
			if why := c11Check("index", s, i, j); why != "" {
				return fmt.Sprintf("[%d:%d] %s", i, j, why)
			}
			v, err, p := applyImpl("index", vs, value.NewInt(i), value.NewInt(j))
			if p != "" {
				return fmt.Sprintf("[%d:%d] panics: %s", i, j, p)
			}
			valid := 0 <= i && i <= j && j <= n
			if valid != (err == nil) {
				return fmt.Sprintf("[%d:%d] of length %d: error=%v", i, j, n, err)
			}
			if !valid {
				if run.Classify(err) != ref.EIndex {
					return fmt.Sprintf("[%d:%d] of length %d fails with %v, documented: index error", i, j, n, err)
				}
				continue
			}
			l, err, _ := applyImpl("#", v)
			if li, _ := l.ToInt(); err != nil || li != j-i {
				return fmt.Sprintf("#s[%d:%d] is %v", i, j, l)
			}
		}
		if 0 <= i && i <= n {
			// s[0:i] + s[i:#s] == s
			l, _, _ := applyImpl("index", vs, value.NewInt(0), value.NewInt(i))
			r, _, _ := applyImpl("index", vs, value.NewInt(i), value.NewInt(n))
			sum, err, p := applyImpl("+", l, r)
			if p != "" || err != nil {
				return fmt.Sprintf("s[0:%d]+s[%d:#s] fails: %v %s", i, i, err, p)
			}
			if !ref.Equiv(run.ToV(sum), run.ToV(vs)) {
				return fmt.Sprintf("s[0:%d]+s[%d:#s] is %s", i, i, sum.String())
			}
			sl, _, _ := applyImpl("#", sum)
			al, _, _ := applyImpl("#", l)
			bl, _, _ := applyImpl("#", r)
			x, _ := sl.ToInt()
			y, _ := al.ToInt()
			z, _ := bl.ToInt()
			if x != y+z {
				return "#(a+b) differs from #a+#b"
			}
		}
	}
	return ""
}

// representatives of every kind for the exhaustive pairing
var c11Reps = map[string][]ref.V{
	"nil":      {ref.Nil{}},
	"int":      {0, 1, -3, 64, math.MinInt64, math.MaxInt64},
	"float":    {0.0, 2.5, math.NaN(), math.Inf(1)},
	"bool":     {true, false},
	"string":   {"", "ab"},
	"array":    {ref.Arr{}, ref.Arr{1, "a", ref.Arr{2.5}}, ref.Arr{ref.Nil{}}, ref.Arr{&ref.Fn{}}, ref.Arr{1, ref.Arr{math.NaN()}}},
	"function": {&ref.Fn{}},
}
var c11Kinds = []string{"nil", "int", "float", "bool", "string", "array", "function"}

func c11Exhaustive(rec *ev.Recorder) string {
	for _, ka := range c11Kinds {
		for _, a := range c11Reps[ka] {
			for _, op := range c11UnOps {
				if why := c11Check(op, a); why != "" {
					return fmt.Sprintf("%s: %s", renderArgs(op, []ref.V{a}), why)
				}
				rec.Case(renderArgs(op, []ref.V{a}), true, "exhaustive-kinds")
			}
			if why := c11IndexLaws(a); why != "" {
				return fmt.Sprintf("%s: %s", renderArgs("index", []ref.V{a}), why)
			}
			for _, op := range c11BinOps {
				if why := c11CheckSelf(op, a); why != "" {
					return fmt.Sprintf("%s: %s", renderArgs(op, []ref.V{a, a}), why)
				}
			}
			for _, kb := range c11Kinds {
				for _, b := range c11Reps[kb] {
					for _, op := range c11BinOps {
						if why := c11Check(op, a, b); why != "" {
							return fmt.Sprintf("%s: %s", renderArgs(op, []ref.V{a, b}), why)
						}
						rec.Case(renderArgs(op, []ref.V{a, b}), true, "exhaustive-kinds")
					}
					if why := c11Check("index", a, b); why != "" {
						return fmt.Sprintf("%s: %s", renderArgs("index", []ref.V{a, b}), why)
					}
					if why := c11Laws(a, b); why != "" {
						return fmt.Sprintf("%s: %s", renderArgs("laws", []ref.V{a, b}), why)
					}
				}
			}
		}
	}
	return ""
}

type c11Case struct {
	Op   string   `json:"op"`
	Args []string `json:"args"` // calc literals
}

func c11Prop(rec *ev.Recorder) func(t *rapid.T) {
	return func(t *rapid.T) {
		a, b := genValue(t, 2), genValue(t, 2)
		if rapid.IntRange(0, 3).Draw(t, "samekind") == 0 {
			// same kind pairs are the interesting ones for arithmetic
			b = genValue(t, 2)
			for i := 0; i < 4 && ref.Kind(a) != ref.Kind(b); i++ {
				b = genValue(t, 2)
			}
		}
		report := func(op string, args []ref.V, why string) {
			fail(t, "C11", "tuple", map[string]any{"op": op, "args": encodeVals(args)}, "%s: %s", renderArgs(op, args), why)
		}
		switch rapid.IntRange(0, 5).Draw(t, "what") {
		case 5:
			op := rapid.SampledFrom(c11BinOps).Draw(t, "op")
			if why := c11CheckSelf(op, a); why != "" {
				report("self:"+op, []ref.V{a}, why)
			}
			rec.Case(renderArgs("self:"+op, []ref.V{a}), true, "same-object")
		case 0, 1:
			op := rapid.SampledFrom(c11BinOps).Draw(t, "op")
			if why := c11Check(op, a, b); why != "" {
				report(op, []ref.V{a, b}, why)
			}
			rec.Case(renderArgs(op, []ref.V{a, b}), true, "binary")
		case 2:
			op := rapid.SampledFrom(c11UnOps).Draw(t, "op")
			if why := c11Check(op, a); why != "" {
				report(op, []ref.V{a}, why)
			}
			rec.Case(renderArgs(op, []ref.V{a}), true, "unary")
		case 3:
			if why := c11Laws(a, b); why != "" {
				report("laws", []ref.V{a, b}, why)
			}
			rec.Case(renderArgs("laws", []ref.V{a, b}), true, "laws")
		default:
			var s ref.V = rapid.SampledFrom(c11Strings).Draw(t, "s")
			if rapid.Bool().Draw(t, "array") {
				s = genValue(t, 2)
			}
			i, j := genValue(t, 0), genValue(t, 0)
			if rapid.Bool().Draw(t, "intix") {
				i, j = rapid.IntRange(-2, 8).Draw(t, "i"), rapid.IntRange(-2, 8).Draw(t, "j")
			}
			if why := c11Check("index", s, i); why != "" {
				report("index", []ref.V{s, i}, why)
			}
			if why := c11Check("index", s, i, j); why != "" {
				report("index", []ref.V{s, i, j}, why)
			}
			if why := c11IndexLaws(s); why != "" {
				report("indexlaws", []ref.V{s}, why)
			}
			rec.Case(renderArgs("index", []ref.V{s, i, j}), true, "index")
		}
	}
}

// values in replay files: JSON with explicit kinds
type valJSON struct {
	K string     `json:"k"`
	I int        `json:"i,omitempty"`
	F string     `json:"f,omitempty"` // float bits as hex, exact
	B bool       `json:"b,omitempty"`
	S string     `json:"s,omitempty"`
	A []*valJSON `json:"a,omitempty"`
}

func encodeVal(v ref.V) *valJSON {
	switch x := v.(type) {
	case ref.Nil:
		return &valJSON{K: "nil"}
	case int:
		return &valJSON{K: "int", I: x}
	case float64:
		return &valJSON{K: "float", F: fmt.Sprintf("%x", math.Float64bits(x)), S: fmt.Sprint(x)}
	case bool:
		return &valJSON{K: "bool", B: x}
	case string:
		return &valJSON{K: "string", S: x}
	case *ref.Fn:
		return &valJSON{K: "function"}
	case ref.Arr:
		j := &valJSON{K: "array", A: []*valJSON{}}
		for _, e := range x {
			j.A = append(j.A, encodeVal(e))
		}
		return j
	}
	panic("encodeVal")
}

func encodeVals(vs []ref.V) []*valJSON {
	r := []*valJSON{}
	for _, v := range vs {
		r = append(r, encodeVal(v))
	}
	return r
}

func decodeVal(j *valJSON) ref.V {
	switch j.K {
	case "nil":
		return ref.Nil{}
	case "int":
		return j.I
	case "float":
		var bits uint64
		fmt.Sscanf(j.F, "%x", &bits)
		return math.Float64frombits(bits)
	case "bool":
		return j.B
	case "string":
		return j.S
	case "function":
		return &ref.Fn{}
	case "array":
		a := ref.Arr{}
		for _, e := range j.A {
			a = append(a, decodeVal(e))
		}
		return a
	}
	panic("decodeVal " + j.K)
}

func init() {
	replayers["C11"] = func(kind string, c json.RawMessage) string {
		if kind == "exhaustive" {
			return c11Exhaustive(ev.New("C11", ""))
		}
		var v struct {
			Op   string
			Args []*valJSON
		}
		mustJSON(c, &v)
		args := []ref.V{}
		for _, a := range v.Args {
			args = append(args, decodeVal(a))
		}
		var why string
		switch {
		case strings.HasPrefix(v.Op, "self:"):
			why = c11CheckSelf(strings.TrimPrefix(v.Op, "self:"), args[0])
		}
		switch v.Op {
		case "laws":
			why = c11Laws(args[0], args[1])
		case "indexlaws":
			why = c11IndexLaws(args[0])
		default:
			if !strings.HasPrefix(v.Op, "self:") {
				why = c11Check(v.Op, args...)
			}
		}
		if why != "" {
			return renderArgs(v.Op, args) + ": " + why
		}
		return ""
	}
}

func TestC11(t *testing.T) {
	if replayMode(t, "C11") {
		return
	}
	rec := ev.New("C11", c11Rule,
		"harness/ref/values.go is the documented value algebra (Readme operator tables; error class of an absent indexed value left open)",
		"shift results are pinned only for counts 0..63 on a non-negative left operand; outside of that only 'an int, no abort' is required",
		"float results are compared bit-exactly: both sides use IEEE float64 with the same operation order; NaN equals NaN for the comparison")
	rec.Extra["regression_cases"] = runRegressions(t, "C11")
	defer finish(t, rec)
	if why := c11Exhaustive(rec); why != "" {
		ev.Repro("C11", "exhaustive", map[string]any{"what": why})
		t.Fatalf("%s", why)
	}
	rapid.Check(t, c11Prop(rec))
}
