package props

import (
	"encoding/json"
	"fmt"
	"github.com/paulsonkoly/calc/parser"
	"strings"
	"testing"

	"pgregory.net/rapid"

	"verif/harness/ev"
	"verif/harness/gen"
	"verif/harness/ref"
)

// C16 All three run modes execute the same program the same way.
//
// Generated scripts are run by the built binary as a file, piped into the REPL
// and (self-contained statements) passed with -eval; the expected transcript
// of each mode is computed by the reference interpreter statement by
// statement, "as if each top-level statement had been entered on its own".

const c16Rule = "scripts of 1-12 top-level statements from gen.G (one-line and multi-line blocks, functions, loops) plus layout stress: string literals and comments holding { } [ ] \" ; characters, multi-line strings and array literals, blank and comment-only lines, trailing comments, file with and without a final line break, exit(n) as last statement; " +
	"non-trivial = the script holds a multi-line statement or a string/comment with a brace, bracket, quote or semicolon, and ran in file and REPL mode; distinct by script text"

var c16Tricky = []string{
	`write("{")`, `write("}")`, `write("[")`, `write("]")`, `write(";")`, `write("a;b{c")`, `write("\"")`, `write("say \"hi\" {")`,
	`zs = "open { [ ; "`, `zt = ["{", "]", ";"]`, `write("x") ; comment with { and [ and "`, `; only a comment {`, `zu = 1 ; }`,
	"zm = \"line one\nline two { \"", "write(\"multi\nline ; string\n\")", "za = [1,\n2,\n3]", "zb = [\n\"[\",\n\"]\"]",
	"if true {\nwrite(\"}\")\n}", "zf = (s) -> {\nwrite(s + \"{\")\ns\n}", `zf("[")`, `write(#"{{{")`, `write("\\")`, "write(\"tab\\n\")",
}

type c16Case struct {
	Stmts      []string `json:"stmts"` // top-level statements, in order
	Seps       []string `json:"seps"`  // text between statements (line break plus blank/comment lines)
	FinalBreak bool     `json:"final_break"`
}

func (c c16Case) script() string {
	var sb strings.Builder
	for i, s := range c.Stmts {
		sb.WriteString(s)
		if i+1 < len(c.Stmts) {
			sb.WriteString(c.Seps[i])
		}
	}
	if c.FinalBreak {
		sb.WriteString("\n")
	}
	return sb.String()
}

// expectModes computes the expected file-mode and REPL-mode transcripts and
// the exit status; ok=false when the script is outside the checked domain
// (runtime errors print a report with addresses, parse errors, domain flags).
func expectModes(stmts []string) (file, repl string, code int, ok bool, why string) {
	rf := ref.New()
	repl = "calc repl\n"
	for _, src := range stmts {
		if strings.HasPrefix(strings.TrimSpace(src), ";") {
			continue // a comment-only "statement" produces nothing
		}
		rr, perr := rf.RunStmt(src)
		switch {
		case perr != nil:
			return "", "", 0, false, "parse error"
		case rr.Skipped():
			return "", "", 0, false, "domain"
		case rr.Err != nil:
			return "", "", 0, false, "runtime error"
		}
		file += rr.Out
		repl += rr.Out
		if rr.Exit {
			return file, repl, rr.Code & 0xff, true, ""
		}
		repl += "> " + ref.Display(rr.Val) + "\n"
	}
	return file, repl, 0, true, ""
}

func c16Check(t testing.TB, c c16Case) (why string, skip string) {
	wantFile, wantRepl, code, ok, reason := expectModes(c.Stmts)
	if !ok {
		return "", reason
	}
	script := c.script()
	r := runCalc(t, "file", script, "")
	if crashed(r) {
		return fmt.Sprintf("file mode aborts:\n%s", clipS(r.out)), ""
	}
	if r.out != wantFile || r.code != code {
		return fmt.Sprintf("file mode prints %q (exit %d), statement by statement it is %q (exit %d)", clipS(r.out), r.code, clipS(wantFile), code), ""
	}
	if replSafe(script) {
		r = runCalc(t, "repl", script, "")
		if crashed(r) {
			return fmt.Sprintf("REPL mode aborts:\n%s", clipS(r.out)), ""
		}
		if r.out != wantRepl || r.code != code {
			return fmt.Sprintf("REPL mode prints %q (exit %d), statement by statement it is %q (exit %d)", clipS(r.out), r.code, clipS(wantRepl), code), ""
		}
	}
	return "", ""
}

// c16Eval: one self-contained statement in all three modes.
func c16EvalCheck(t testing.TB, stmt string) (why, skip string) {
	rf := ref.New()
	rr, perr := rf.RunStmt(stmt)
	if perr != nil || rr.Skipped() || rr.Err != nil || rr.Exit {
		return "", "outside domain"
	}
	if strings.IndexByte(stmt, 0) >= 0 {
		return "", "NUL in argument"
	}
	r := runCalc(t, "eval", stmt, "")
	want := rr.Out + ref.Str(rr.Val) + "\n"
	if crashed(r) {
		return fmt.Sprintf("-eval aborts:\n%s", clipS(r.out)), ""
	}
	if r.out != want {
		return fmt.Sprintf("-eval prints %q, the statement computes %q", clipS(r.out), clipS(want)), ""
	}
	r = runCalc(t, "file", stmt+"\n", "")
	if r.out != rr.Out {
		return fmt.Sprintf("file mode prints %q, the statement writes %q", clipS(r.out), clipS(rr.Out)), ""
	}
	if replSafe(stmt) {
		r = runCalc(t, "repl", stmt+"\n", "")
		if want := "calc repl\n" + rr.Out + "> " + ref.Display(rr.Val) + "\n"; r.out != want {
			return fmt.Sprintf("REPL mode prints %q, the statement computes %q", clipS(r.out), clipS(want)), ""
		}
	}
	return "", ""
}

// genMultiLine is a statement holding a string or array literal that spans
// several lines, with empty and blank lines, braces and comment starts inside.
func genMultiLine(t *rapid.T) string {
	n := rapid.IntRange(2, 5).Draw(t, "lines")
	lines := []string{}
	for i := 0; i < n; i++ {
		lines = append(lines, rapid.SampledFrom([]string{"", "", " ", "x", "; c", "{", "}", "[", "a b", "]", "  y", "\\\""}).Draw(t, "line"))
	}
	if n > 2 && rapid.IntRange(0, 3).Draw(t, "backslash") == 0 {
		// a line (not the last one) ends with a backslash: the escape swallows the line break
		lines[rapid.IntRange(0, n-2).Draw(t, "bsline")] += "\\"
	}
	body := strings.Join(lines, "\n")
	switch rapid.IntRange(0, 5).Draw(t, "form") {
	case 4:
		// one very long physical line (buffer sizes of line readers: 4096, 65536)
		n := rapid.SampledFrom([]int{4090, 4096, 4100, 65530, 65536, 65540, 70000, 140000}).Draw(t, "long")
		if rapid.Bool().Draw(t, "array") {
			return "write(#[" + strings.Repeat("1, ", n/3) + "1])"
		}
		return "write(#\"" + strings.Repeat("x", n) + "\")"
	case 5:
		// a carriage return before the line break inside a string (never piped to the REPL)
		return "write(#\"a\r\nb\" + #\"" + body + "\r\n\")"
	case 0:
		return "write(\"<\" + \"" + body + "\" + \">\")"
	case 1:
		return "zml = \"" + body + "\""
	case 2:
		return "write(#\"" + body + "\")"
	default:
		// an array literal over several lines with blank lines between the elements
		return "zma = [1," + strings.Repeat("\n", rapid.IntRange(1, 3).Draw(t, "gap")) + "2,\n\n \"" + body + "\"]"
	}
}

// breakLine inserts a line break at a token boundary of a statement (after a
// comma or an opening bracket half of the time) and returns the new text if
// the parser still takes it as one statement, else s itself.
func breakLine(t *rapid.T, s string) string {
	structural, all := []int{}, []int{}
	for i := 0; i < len(s); i++ {
		switch s[i] {
		case ',', '(', '[', '{':
			structural = append(structural, i+1)
			all = append(all, i+1)
		case ' ', '+', '-', '*', ')', ']':
			all = append(all, i+1)
		}
	}
	cands := all
	if len(structural) > 0 && rapid.Bool().Draw(t, "structural") {
		cands = structural
	}
	if len(cands) == 0 {
		return s
	}
	at := cands[rapid.IntRange(0, len(cands)-1).Draw(t, "breakat")]
	broken := s[:at] + "\n" + s[at:]
	if ast, perr := parser.Parse(broken); perr == nil && len(ast) == 1 {
		return broken
	}
	return s
}

func genSep(t *rapid.T) string {
	s := "\n"
	for rapid.IntRange(0, 4).Draw(t, "sep") == 0 {
		s += rapid.SampledFrom([]string{"\n", "; comment { [ \" ( \n", "   \n", " ; }\n"}).Draw(t, "blank")
	}
	return s
}

func c16Prop(rec *ev.Recorder, tb testing.TB) func(t *rapid.T) {
	return func(t *rapid.T) {
		g := &gen.G{T: t}
		if rapid.IntRange(0, 3).Draw(t, "what") == 0 {
			// one self-contained statement: a block of definitions ending in an expression
			pre := g.Environment(rapid.IntRange(0, 3).Draw(t, "globals"), rapid.IntRange(0, 2).Draw(t, "funcs"))
			e, _ := g.Expr(rapid.IntRange(1, 4).Draw(t, "d"))
			stmt := e
			if rapid.Bool().Draw(t, "block") {
				lines := []string{}
				for _, p := range pre {
					lines = append(lines, p)
				}
				stmt = "{\n" + strings.Join(append(lines, e), "\n") + "\n}"
			} else if strings.ContainsAny(e, "gf") {
				// may refer to the environment: keep it self-contained
				stmt = "{\n" + strings.Join(append(pre, e), "\n") + "\n}"
			}
			if rapid.IntRange(0, 2).Draw(t, "break") == 0 {
				// a line break at some token boundary: wherever the parser takes the text as one statement,
				// the readers of file and REPL mode have to take it as one statement too
				stmt = breakLine(t, stmt)
			}
			why, skip := c16EvalCheck(tb, stmt)
			if why != "" {
				fail(t, "C16", "eval", map[string]any{"stmt": stmt}, "%s\n%s", why, stmt)
			}
			if skip != "" {
				rec.Skip("eval: " + skip)
				return
			}
			rec.Case("E|"+stmt, strings.Contains(stmt, "\n"), "three-modes-one-statement")
			return
		}
		c := c16Case{FinalBreak: rapid.IntRange(0, 2).Draw(t, "final") > 0}
		stmts := g.Session()
		if n := rapid.IntRange(1, 12).Draw(t, "n"); len(stmts) > n {
			stmts = stmts[:n]
		}
		for _, s := range stmts {
			if rapid.IntRange(0, 3).Draw(t, "tricky") == 0 {
				c.Stmts = append(c.Stmts, rapid.SampledFrom(c16Tricky).Draw(t, "trickystmt"))
			}
			if rapid.IntRange(0, 5).Draw(t, "multiline") == 0 {
				c.Stmts = append(c.Stmts, genMultiLine(t))
			}
			if rapid.IntRange(0, 4).Draw(t, "breakline") == 0 {
				s = breakLine(t, s)
			}
			if rapid.IntRange(0, 5).Draw(t, "trail") == 0 && !strings.Contains(s, "\n") {
				s += " ; trailing \" { ["
			}
			c.Stmts = append(c.Stmts, s)
		}
		if rapid.IntRange(0, 7).Draw(t, "exit") == 0 {
			c.Stmts = append(c.Stmts, "exit("+rapid.SampledFrom([]string{"0", "1", "3", "255", "256", "77", "\"done\"", "1.0", "true", "[1]", "0 - 1"}).Draw(t, "code")+")")
		}
		for range c.Stmts {
			c.Seps = append(c.Seps, genSep(t))
		}
		why, skip := c16Check(tb, c)
		if why != "" {
			fail(t, "C16", "script", c, "%s\n--- script\n%s", why, c.script())
		}
		if skip != "" {
			rec.Skip("script: " + skip)
			rec.Case(c.script(), false, "skipped")
			return
		}
		script := c.script()
		tricky := false
		for _, k := range []string{"\"{", "{\"", "\"[", "\"]", "\";", "; comment", "; trailing", "\"}", "\\\"", "\nline"} {
			tricky = tricky || strings.Contains(script, k)
		}
		multi := false
		for _, s := range c.Stmts {
			multi = multi || strings.Contains(s, "\n")
		}
		rec.Case(script, tricky || multi, fmt.Sprintf("final-break:%v", c.FinalBreak))
	}
}

func init() {
	replayers["C16"] = func(kind string, c json.RawMessage) string {
		switch kind {
		case "script":
			var v c16Case
			mustJSON(c, &v)
			why, _ := c16Check(replayT, v)
			return why
		case "eval":
			var v struct{ Stmt string }
			mustJSON(c, &v)
			why, _ := c16EvalCheck(replayT, v.Stmt)
			return why
		}
		return ""
	}
}

func TestC16(t *testing.T) {
	replayT = t
	if replayMode(t, "C16") {
		return
	}
	rec := ev.New("C16", c16Rule,
		"the REPL is driven through a pipe (no terminal): line editing is out of reach, and control bytes are never piped to it",
		"scripts whose reference run ends in a runtime error are skipped here (the report holds addresses); sessions with errors are C08's subject",
		"-eval prints the value with String(): strings unquoted (the REPL quotes them)")
	rec.Extra["regression_cases"] = runRegressions(t, "C16")
	defer finish(t, rec)
	rapid.Check(t, c16Prop(rec, t))
}
