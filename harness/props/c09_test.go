package props

import (
	"encoding/json"
	"fmt"
	"strings"
	"testing"

	"pgregory.net/rapid"

	"github.com/paulsonkoly/calc/memory"

	"verif/harness/ev"
	"verif/harness/gen"
	"verif/harness/run"
)

// C09 Evaluation leaves the machine clean: no stack, frame or context residue.
//
// (a) typed sessions: after every statement that finished (normally, through
//     return, or with a runtime error) operand stack, frame stack, closure stack
//     and child contexts are empty and the main context is at the end of the
//     code - in both result modes; values are compared with the reference too;
// (b) growth: a loop program instantiated with n and n+600 iterations on fresh
//     VMs must reach the same high-water stack length over all memories.

const c09Rule = "(a) typed sessions from gen.G in both result modes, machine state read through the verif hooks after every statement; " +
	"(b) loop programs (while / for / generator / function called in a loop; bodies ending in every statement form, early returns from nested loops) run with n and n+600 iterations, comparing the stack high-water mark; " +
	"non-trivial = (a) the session holds a loop whose body holds if/for/while/return or a return crossing a loop, (b) every growth pair; distinct by program text"

// loop bodies ending in every statement form; %i is the loop variable
var c09Bodies = []string{
	"if %i < 9 5",
	"if %i < 0 5",
	"if %i % 2 == 0 1 else 2",
	"if !(%i < 3) 7",
	"x = %i + 1",
	"%i * 2",
	"(%i + 1) * (%i + 2)",
	"f(%i)",
	"f(%i) + f(%i)",
	"for j <- fromto(0, 2) j",
	"for j <- fromto(0, 2) if j == 1 5",
	"for j, k <- fromto(0, 3), elems(\"ab\") {\n[j, k]\n}",
	"while false 1",
	"[%i, %i + 1]",
	"\"s\" + toa(%i)",
	"yield %i",
	"yield %i * 2",
	"yield f(%i)",
	"yield [%i, 1][0]",
	"{\nyield %i + 1\n7\n}",
	"{\nyield (a) -> a\nyield \"s\" + toa(%i)\n}",
	"(a) -> a + %i",
	"[1, 2, 3][%i % 3]",
	"\"abc\"[0:%i % 3]",
	"{\nif %i < 9 5\nif %i > 3 {\n%i + 1\n}\n}",
	"{\ny = [%i]\ny + y\n}",
	"r(%i)",
	"nest(3)",
	"for v <- g(3) v + %i",
	"if %i == -1 return 4",
	"if %i < 100000 %i else return 4",
	"if %i == -1 return 4 else %i + 1",
	"if %i == -1 return 4 else {\nif %i > 2 %i\n}",
}

const c09Prelude = "f = (n) -> n + 1\n----\n" +
	"g = (n) -> {\ni = 0\nwhile i < n {\nyield i\ni = i + 1\n}\n}\n----\n" +
	"r = (n) -> {\nfor i <- fromto(0, 5) if i == n % 5 return i\n}\n----\n" +
	"nest = (n) -> {\nfor i <- fromto(0, n) {\nfor j <- fromto(0, n) {\nif i * j == 2 return [i, j]\n}\n}\n}"

// unbrace strips the braces of a block body so that it can be spliced into another block.
func unbrace(b string) string {
	if strings.HasPrefix(b, "{\n") && strings.HasSuffix(b, "\n}") {
		return b[2 : len(b)-2]
	}
	return b
}

// growthProgram builds the session for one shape, body and iteration count.
func growthProgram(shape int, body string, n int) []string {
	stmts := strings.Split(c09Prelude, "\n----\n")
	b := func(v string) string { return unbrace(strings.ReplaceAll(body, "%i", v)) }
	if shape >= 6 {
		// while loops: condition with or without a call, body or counter last, in every position
		k := shape - 6
		cond := "i < %d"
		if k&1 == 1 {
			cond = "lt(i, %d)"
		}
		loop := "while " + cond + " {\n%s\ni = i + 1\n}"
		if k&2 == 2 {
			loop = "while " + cond + " {\ni = i + 1\n%[2]s\n}"
		}
		stmts = append(stmts, "lt = (a, b) -> a < b")
		switch (k >> 2) % 4 {
		case 0: // top level: the statement's value in result mode
			stmts = append(stmts, "i = 0", fmt.Sprintf(loop, n, b("i")))
		case 1: // the tail of a function
			stmts = append(stmts, "lw = (n) -> {\ni = 0\n"+fmt.Sprintf(strings.ReplaceAll(loop, "%d", "n%.0d"), 0, b("i"))+"\n}", fmt.Sprintf("lw(%d)", n))
		case 2: // the tail of a block, of an if
			stmts = append(stmts, "i = 0", "{\nif true {\n"+fmt.Sprintf(loop, n, b("i"))+"\n}\n}")
		default: // the body of a for loop in a function (value position, not the tail of the function's text)
			stmts = append(stmts, "lw = (n) -> for q <- fromto(0, 1) {\ni = 0\n"+fmt.Sprintf(strings.ReplaceAll(loop, "%d", "n%.0d"), 0, b("i"))+"\n}", fmt.Sprintf("lw(%d)", n))
		}
		return stmts
	}
	switch shape % 6 {
	case 0: // top level while
		stmts = append(stmts, "i = 0", fmt.Sprintf("while i < %d {\n%s\ni = i + 1\n}", n, b("i")))
	case 1: // top level for
		stmts = append(stmts, fmt.Sprintf("for i <- fromto(0, %d) {\n%s\n}", n, b("i")))
	case 2: // loop in a function
		stmts = append(stmts, fmt.Sprintf("lp = (n) -> {\ni = 0\nwhile i < n {\n%s\ni = i + 1\n}\ni\n}", b("i")), fmt.Sprintf("lp(%d)", n))
	case 3: // a function run n times from a loop
		stmts = append(stmts, fmt.Sprintf("once = (i) -> {\n%s\n}", b("i")), fmt.Sprintf("for q <- fromto(0, %d) once(q)", n))
	case 4: // generator consumed by a loop, body in the generator
		stmts = append(stmts, fmt.Sprintf("gen = (n) -> {\ni = 0\nwhile i < n {\n%s\nyield i\ni = i + 1\n}\n}", b("i")), fmt.Sprintf("for v <- gen(%d) v", n))
	default: // for loop as the last statement of a function (returning position)
		stmts = append(stmts, fmt.Sprintf("lf = (n) -> for i <- fromto(0, n) {\n%s\n}", b("i")), fmt.Sprintf("lf(%d)", n))
	}
	return stmts
}

// highWater runs a session and returns the stack high-water mark ("" = fine).
func highWater(stmts []string, discard bool) (int, string) {
	memory.VerifMaxStack = 0
	s := run.NewSession()
	for i, src := range stmts {
		vr := s.Run(src, discard, 0)
		if vr.Panic != "" {
			return 0, fmt.Sprintf("stmt %d aborts: %s", i, firstLine(vr.Panic))
		}
		if vr.ParseErr != nil {
			return 0, fmt.Sprintf("stmt %d: %v", i, vr.ParseErr)
		}
		if vr.Resid != "" {
			return 0, fmt.Sprintf("stmt %d leaves %s", i, vr.Resid)
		}
		if vr.Err != "" {
			if resid := s.Residue(); resid != "" {
				return 0, fmt.Sprintf("stmt %d (after %s) leaves %s", i, vr.Err, resid)
			}
		}
	}
	return memory.VerifMaxStack, ""
}

type growthCase struct {
	Shape   int    `json:"shape"`
	Body    string `json:"body"`
	N       int    `json:"n"`
	Discard bool   `json:"discard"`
}

func growthCheck(c growthCase) string {
	small, why := highWater(growthProgram(c.Shape, c.Body, c.N), c.Discard)
	if why != "" {
		return why
	}
	big, why := highWater(growthProgram(c.Shape, c.Body, c.N+600), c.Discard)
	if why != "" {
		return why
	}
	if small != big {
		return fmt.Sprintf("stack high-water mark %d slots with %d iterations, %d slots with %d: working storage grows with the iteration count", small, c.N, big, c.N+600)
	}
	return ""
}

func loopHeavy(text string) bool {
	// a loop whose body holds a control statement, or a return inside a loop
	for _, l := range []string{"while ", "for "} {
		i := strings.Index(text, l)
		for i >= 0 {
			rest := text[i+len(l):]
			for _, k := range []string{"if ", "for ", "while ", "return "} {
				if strings.Contains(rest, k) {
					return true
				}
			}
			j := strings.Index(rest, l)
			if j < 0 {
				break
			}
			i += len(l) + j
		}
	}
	return false
}

func c09Prop(rec *ev.Recorder) func(t *rapid.T) {
	return func(t *rapid.T) {
		if rapid.IntRange(0, 3).Draw(t, "which") == 0 {
			c := growthCase{
				Shape:   rapid.IntRange(0, 21).Draw(t, "shape"),
				Body:    rapid.SampledFrom(c09Bodies).Draw(t, "body"),
				N:       rapid.IntRange(1, 40).Draw(t, "n"),
				Discard: rapid.Bool().Draw(t, "discard"),
			}
			if rapid.IntRange(0, 3).Draw(t, "two") == 0 {
				c.Body = "{\n" + unbrace(c.Body) + "\n" + unbrace(rapid.SampledFrom(c09Bodies).Draw(t, "body2")) + "\n}"
			}
			if why := growthCheck(c); why != "" {
				fail(t, "C09", "growth", c, "%s\n%s", why, joinStmts(growthProgram(c.Shape, c.Body, c.N)))
			}
			rec.Case(fmt.Sprintf("growth %d %v %d | %s", c.Shape, c.Discard, c.N, c.Body), true, "growth-pair")
			return
		}
		g := &gen.G{T: t}
		var stmts []string
		if rapid.IntRange(0, 5).Draw(t, "exits") == 0 {
			// early exits out of several live iterator contexts at once, at every call depth up to 40
			// (and with frames of different widths in between): nothing may stay registered anywhere
			k := rapid.IntRange(0, 9).Draw(t, "k")
			pad := ""
			for i := rapid.IntRange(0, 4).Draw(t, "pad"); i > 0; i-- {
				pad += ", " + letters("zp", i)
			}
			exits := []string{
				"for i <- fromto(0, 4) {\nfor j <- fromto(0, 4) {\nif i * j == k return [i, j]\n}\n}",
				"for i, j <- fromto(0, 5), fromto(3, 9) if i + j > k return [i, j]",
				"for i <- fromto(0, 3) for j <- fromto(0, 3) for l <- fromto(0, 3) if i + j + l == k return l",
				"for i, j, l <- fromto(0, 5), elems(\"abcde\"), fromto(9, 20) if i == k % 4 return j",
				"for i <- g(4) {\nfor j, l <- g(3), fromto(0, 9) {\nif i + j == k % 5 return [i, l]\n}\n}",
			}
			stmts = append(strings.Split(c09Prelude, "\n----\n"),
				"leaf = (k) -> {\n"+rapid.SampledFrom(exits).Draw(t, "exit")+"\n}",
				"under = (d, k"+pad+") -> if d <= 0 leaf(k) else under(d - 1, k"+pad+")",
				fmt.Sprintf("{\nzr = []\nfor zd <- fromto(0, 41) zr = zr + [under(zd, %d%s)]\n#zr\n}", k, strings.Repeat(", 0", strings.Count(pad, ","))),
				fmt.Sprintf("under(%d, %d%s)", rapid.IntRange(0, 40).Draw(t, "d"), k, strings.Repeat(", 0", strings.Count(pad, ","))),
				"for v <- g(2) for w <- g(2) v + w")
		} else {
			stmts = g.Session()
		}
		discard := rapid.Bool().Draw(t, "discard")
		text := joinStmts(stmts)
		o := diffSession(stmts, diffOpts{discard: discard})
		if o.bad() {
			fail(t, "C09", "session", map[string]any{"stmts": stmts, "discard": discard}, "%s %s\n%s", o.kind, o.why, text)
		}
		if o.kind == "skip" {
			rec.Skip(o.why)
			rec.Case(text, false, "skipped")
			return
		}
		rec.Case(text, loopHeavy(text), fmt.Sprintf("session discard:%v", discard))
	}
}

func init() {
	replayers["C09"] = func(kind string, c json.RawMessage) string {
		switch kind {
		case "growth":
			var v growthCase
			mustJSON(c, &v)
			return growthCheck(v)
		case "session":
			var v struct {
				Stmts   []string
				Discard bool
			}
			mustJSON(c, &v)
			if o := diffSession(v.Stmts, diffOpts{discard: v.Discard}); o.bad() {
				return fmt.Sprintf("%s %s\n%s", o.kind, o.why, joinStmts(v.Stmts))
			}
		}
		return ""
	}
}

func TestC09(t *testing.T) {
	if replayMode(t, "C09") {
		return
	}
	rec := ev.New("C09", c09Rule,
		"machine state is read through the verif hooks (memory sp / frames / closure depth, vm main ip / registered child contexts)",
		"the growth comparison sees the operand stacks of all memories through the growStack hook; 600 extra iterations cross at least four 128-slot growth steps")
	rec.Extra["regression_cases"] = runRegressions(t, "C09")
	defer finish(t, rec)
	rapid.Check(t, c09Prop(rec))
}
