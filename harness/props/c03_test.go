package props

import (
	"encoding/json"
	"fmt"
	"sort"
	"strings"
	"testing"

	"pgregory.net/rapid"

	"github.com/paulsonkoly/calc/memory"

	"verif/harness/ev"
	"verif/harness/gen"
	"verif/harness/ref"
)

// C03 Functions are pure: same arguments, same result, whatever happened before.
//
// Metamorphic on the real VM: one call of a side-effect-free function is placed
// in many dynamic contexts (top level, twice in one expression, loop body,
// generator, under deep recursion, from a wide frame, after loops / failed
// statements / stack growth); all placements must give the same value. The
// value is also compared with the reference.

const c03Rule = "a library of side-effect-free functions (closures created, called and returned; captured variables updated after capture and after deep calls; loops, generators, recursion, wide frames) and functions from gen.G without I/O; one call placed in 14 dynamic contexts incl. recursion depth k in {0,1,40,60,130,500,3000} and callers with 100-400 locals; " +
	"non-trivial = the function creates a closure or runs a loop, and some placement moved a stack to a new backing array or reused an iterator context; distinct by call and library text"

var c03Lib = []string{
	"id = (z) -> z",
	"app = (f, x) -> f(x)",
	"deep = (n) -> if n <= 0 0 else 1 + deep(n - 1)",
	"upd = (p, d, k) -> {\nx = p\ng = () -> x + p\ndeep(d)\nx = x + k\n[g(), x]\n}",
	"mk = (p) -> {\nv = p * 2\n[() -> v, [(q) -> q + v + p]]\n}",
	"use = (p, q, d) -> {\nb = mk(p)\ndeep(d)\nc = b[0]\ne = b[1][0]\n[c(), e(q)]\n}",
	"viaid = (p) -> {\nx = p\ng = () -> x\nk = id(g)\nx = x + 1\n[g(), k()]\n}",
	"sum = (n) -> {\ns = 0\nfor i <- fromto(0, n) s = s + i\ns\n}",
	"zipsum = (n) -> {\ns = []\nfor i, j <- fromto(0, n), elems(\"abcdef\") s = s + [toa(i) + j]\ns\n}",
	"fib = (n) -> if n < 2 n else fib(n - 1) + fib(n - 2)",
	"adder = (n) -> (m) -> n + m",
	"twice = (f) -> (x) -> f(f(x))",
	"compose = (p, q) -> {\na = adder(p)\nt = twice(a)\nt(q)\n}",
	"counter = (n) -> {\nc = 0\ninc = () -> c + 1\ni = 0\nwhile i < n {\nc = inc()\ni = i + 1\n}\n[c, inc()]\n}",
	"gensum = (n) -> {\ng = () -> {\ni = 0\nwhile i < n {\nyield i * i\ni = i + 1\n}\n}\ns = 0\nfor v <- g() s = s + v\ns\n}",
	"nested = (n) -> {\nfor i <- fromto(0, n) {\nfor j <- fromto(0, n) {\nif i * j == 6 return [i, j]\n}\n}\n}",
	"ylds = () -> {\nv = 1\nyield () -> v\nv = 2\nyield () -> v\nv = 3\n}",
	"collect = () -> {\nfs = []\nfor f <- ylds() fs = fs + [f]\nfa = fs[0]\nfb = fs[1]\n[fa(), fb()]\n}",
	"mkgen = (p, q) -> () -> {\nyield p\nyield q\nyield p + q\n}",
	"useg = (a, k) -> {\ng = mkgen(a, a * 2)\nh = adder(k)\ns = 0\nfor v <- g() s = s + h(v)\ns\n}",
	"shared = (n) -> {\nstop = false\nlim = n\ngg = () -> {\ni = 0\nwhile !stop {\nyield i + lim\ni = i + 1\n}\n}\nr = []\nfor v <- gg() {\nr = r + [v]\nlim = lim + 10\nif #r >= 3 stop = true\n}\nr\n}",
	"geni = (k) -> {\ni = 0\nwhile true {\nyield () -> i + k\ni = i + 1\n}\n}",
	"firstc = (k, skip) -> {\nfor f <- geni(k) {\nif skip <= 0 return f\nskip = skip - 1\n}\n}",
	"abandon = (k, skip, n) -> {\nc = firstc(k, skip)\ns = 0\nfor v, w <- fromto(0, n), fromto(5, 50) s = s + v * w\nfor u <- fromto(0, 2) for x <- fromto(0, 2) s = s + u + x\n[c(), s, c()]\n}",
	"pickq = (n) -> {\nif n > 99 la = 0\nlb = 7\nif n > 99 lc = 0\nld = 8\nif n > 99 le = 0\nlf = 9\nif n == 0 return la\nif n == 1 return lc\nle\n}",
	"pick = (n) -> {\nif n > 0 a = n * 3\nb = n + 1\nif n > 1 c = n\n[a, b, c]\n}",
	"map = (f, it) -> for e <- it() yield f(e)",
	"itclos = (k, n) -> {\ns = 0\nfor v <- map((x) -> x + k, () -> fromto(0, n)) s = s + v\ns\n}",
	"itpick = (a, b) -> {\nr = []\nfor f <- elems([() -> a, () -> a + b]) r = r + [f]\nfa = r[0]\nfb = r[1]\n[fa(), fb()]\n}",
}

func c03Calls(t *rapid.T) (call, other string, heavy bool) {
	kind := rapid.IntRange(0, 22).Draw(t, "call")
	if kind > 20 {
		kind = 18 // a closure that outlives the abandoned generator it was made in, across later loops
	}
	if kind > 18 {
		kind = 15 // functions that read locals they may not have assigned see whatever memory they land on
	}
	mk := func() (string, bool) {
		n := func(hi int) int { return rapid.IntRange(0, hi).Draw(t, "arg") }
		d := rapid.SampledFrom([]int{0, 1, 40, 130, 300, 1000}).Draw(t, "deep")
		switch kind {
		case 0:
			return fmt.Sprintf("upd(%d, %d, %d)", n(9), d, n(5)), true
		case 1:
			return fmt.Sprintf("use(%d, %d, %d)", n(9), n(9), d), true
		case 2:
			return fmt.Sprintf("viaid(%d)", n(9)), true
		case 3:
			return fmt.Sprintf("sum(%d)", n(20)), true
		case 4:
			return fmt.Sprintf("zipsum(%d)", n(8)), true
		case 5:
			return fmt.Sprintf("fib(%d)", n(12)), false
		case 6:
			return fmt.Sprintf("compose(%d, %d)", n(9), n(9)), true
		case 7:
			return fmt.Sprintf("counter(%d)", n(6)), true
		case 8:
			return fmt.Sprintf("gensum(%d)", n(9)), true
		case 9:
			return fmt.Sprintf("nested(%d)", n(6)), true
		case 10:
			return "collect()", true
		case 11:
			return fmt.Sprintf("app(adder(%d), %d)", n(9), n(9)), true
		case 12:
			return fmt.Sprintf("itclos(%d, %d)", n(20), 1+n(4)), true
		case 13:
			return fmt.Sprintf("itpick(%d, %d)", n(20), n(20)), true
		case 18:
			return fmt.Sprintf("abandon(%d, %d, %d)", n(20), n(3), n(6)), true
		case 16:
			return fmt.Sprintf("useg(%d, %d)", n(20), n(200)), true
		case 17:
			return fmt.Sprintf("shared(%d)", n(20)), true
		case 15:
			// reads locals it may never have assigned: they must be nil, whatever was on the stack before
			if rapid.Bool().Draw(t, "quiet") {
				// the same without building a list: nothing is pushed beyond the frame
				return fmt.Sprintf("pickq(%d)", n(2)), true
			}
			return fmt.Sprintf("pick(%d)", n(3)), true
		default:
			return fmt.Sprintf("app(twice(adder(%d)), %d) + sum(%d)", n(9), n(9), n(6)), true
		}
	}
	call, heavy = mk()
	other, _ = mk()
	return
}

type c03Case struct {
	Lib   []string `json:"lib"`
	Call  string   `json:"call"`
	Other string   `json:"other"` // the same function with other arguments
	Wide  int      `json:"wide"`
	Deep  int      `json:"deep"`
	Step  int      `json:"step"`
}

// placements returns, per placement, the statements to run after the library
// and an expression giving a list of the call's results in that context.
func (c c03Case) placements() map[string][]string {
	f := c.Call
	var wide strings.Builder
	wide.WriteString("widecaller = () -> {\n")
	for i := 0; i < c.Wide; i++ {
		fmt.Fprintf(&wide, "%s = %d\n", letters("ww", i), i)
	}
	fmt.Fprintf(&wide, "r = %s\n[r, %s]\n}", f, letters("ww", c.Wide-1))
	var wideLoop strings.Builder
	wideLoop.WriteString("wideloop = () -> {\n")
	for i := 0; i < c.Wide; i++ {
		fmt.Fprintf(&wideLoop, "%s = %d\n", letters("ww", i), i)
	}
	// the iterator reads the last local of the wide frame
	fmt.Fprintf(&wideLoop, "zr = []\nfor zi <- fromto(0, %s - %d) zr = zr + [%s]\nzr\n}", letters("ww", c.Wide-1), c.Wide-3, f)
	other := c.Other
	if other == "" {
		other = "0"
	}
	xp, xa := "", ""
	for i := 0; i < c.Step; i++ {
		xp += ", " + letters("zx", i)
		xa += ", " + fmt.Sprint(i)
	}
	return map[string][]string{
		// another activation of the same function earlier in the same statement (recycled iterator contexts)
		"after-other-call":    {"{\nzo = [" + other + ", " + other + "]\n[" + f + "]\n}"},
		"between-other-calls": {"{\nzo = [" + other + "]\nzr = [" + f + "]\nzo = [" + other + "]\nzr + [" + f + "]\n}"},
		// every call depth from 0 to 300 in one session: each frame lands on slots earlier, shallower calls used
		// (the frames of the recursion are c.Step slots wider than the minimum, so that over the cases
		// the measured call starts at every offset from the stack's growth boundaries)
		"depth-sweep": {"zd = (n" + xp + ") -> if n <= 0 " + f + " else zd(n - 1" + xp + ")", "zdo = (n" + xp + ") -> if n <= 0 " + other + " else zdo(n - 1" + xp + ")",
			"{\nzr = []\nfor zi <- fromto(0, 200) {\nzo = [zdo(zi" + xa + ")]\nzr = zr + [zd(zi + 1" + xa + ")]\n}\nzr\n}"},
		"depth-sweep-self": {"zd = (n" + xp + ") -> if n <= 0 " + f + " else zd(n - 1" + xp + ")",
			"{\nzr = []\nfor zi <- fromto(0, 200) zr = zr + [zd(zi" + xa + ")]\nzr\n}"},
		"wide-loop-after-loop": {wideLoop.String(), "{\nfor zq <- fromto(0, 2) zq\nwideloop()\n}"},
		"top":                  {"[" + f + "]"},
		"twice":                {"[" + f + ", " + f + "]"},
		"loop":                 {"{\nzr = []\nfor zi <- fromto(0, 3) zr = zr + [" + f + "]\nzr\n}"},
		"generator":            {"zg = () -> {\nyield " + f + "\nyield " + f + "\n}", "{\nzr = []\nfor zv <- zg() zr = zr + [zv]\nzr\n}"},
		"zipped":               {"zg = () -> {\nyield " + f + "\nyield " + f + "\n}", "{\nzr = []\nfor zv, zw <- zg(), zg() zr = zr + [zv, zw]\nzr\n}"},
		"deep-tail":            {"zd = (n) -> if n <= 0 " + f + " else zd(n - 1)", fmt.Sprintf("[zd(%d)]", c.Deep)},
		"deep-nontail":         {"zd = (n) -> if n <= 0 {\n[" + f + "]\n} else [zd(n - 1)[0]]", fmt.Sprintf("zd(%d)", c.Deep)},
		"wide-caller":          {wide.String(), "[widecaller()[0]]"},
		"after-loops":          {"{\nfor zq <- fromto(0, 2) zq\nfor zq, zp <- fromto(0, 2), fromto(0, 3) zq\n[" + f + "]\n}"},
		"after-error":          {"\x011 / 0", "\x01nothingx + 1", "\x01for zi <- fromto(0, 3) deep(20) + [zi]", "[" + f + "]"},
		"after-growth":         {fmt.Sprintf("deep(%d)", 3000), "[" + f + "]"},
		// failures below calls, in closures, in generators: whatever they leave in the machine must not matter
		"after-deep-errors": {"zbad = (n) -> if n <= 0 1 / 0 else 1 + zbad(n - 1)", "\x01zbad(0)", "\x01zbad(5)", "\x01app((x) -> [x][3], 1)",
			"\x01for zv <- map((x) -> x / 0, () -> fromto(0, 3)) zv", fmt.Sprintf("\x01zbad(%d)", c.Deep), "\x01{\nzk = (p) -> {\nq = p\n() -> q + nothingx\n}\nzj = zk(1)\nzj()\n}", "[" + f + "]"},
		"between-errors": {"zbad = (n) -> if n <= 0 nothingx + 1 else 1 + zbad(n - 1)", "zx = " + f, "\x01zbad(2)", "zy = " + f, "\x01for zi, zj <- fromto(0, 3), map(zbad, () -> fromto(1, 3)) zi", "[zx, zy, " + f + "]"},
		"later":          {"zx = " + f, "deep(200)", "zy = " + f, "[zx, zy]"},
		"in-closure":     {"zc = () -> () -> " + f, "zk = zc()", "[zk(), zk()]"},
		"loop-in-fn":     {"zl = (n) -> {\nzr = []\nfor zi <- fromto(0, n) zr = zr + [" + f + "]\nzr\n}", "zl(2) + zl(1)"},
	}
}

// c03Check runs every placement on a fresh VM; each must end with a list whose
// elements all render like the top-level result.
func c03Check(c c03Case) (why string, grew bool, skip string) {
	if c.Other != "" && overBudget(c.Lib, []string{"[" + c.Other + "]"}) {
		c.Other = ""
	}
	if c.Other != "" {
		// the other activation must itself succeed, or the placements that run it first are different programs
		if o, internal := runEmbedding(c.Lib, []string{"[" + c.Other + "]"}); internal != "" || o.err != "" || strings.HasPrefix(o.val, "ABORT") || strings.HasPrefix(o.val, "RESIDUE") {
			c.Other = ""
		}
	}
	if overBudget(c.Lib, c.placements()["top"]) {
		return "", false, "reference budget"
	}
	base, internal := runEmbedding(c.Lib, c.placements()["top"])
	if internal != "" {
		return "", false, internal
	}
	if strings.HasPrefix(base.val, "ABORT") || strings.HasPrefix(base.val, "RESIDUE") {
		return "at top level: " + base.val, false, ""
	}
	want := strings.TrimSuffix(strings.TrimPrefix(base.val, "["), "]")
	if want == "nil" {
		// assigning or yielding an absent value is an error by definition, so most
		// placements are different programs
		return "", false, "call returns nothing"
	}
	names := []string{}
	pl := c.placements()
	for k := range pl {
		names = append(names, k)
	}
	sort.Strings(names)
	for _, name := range names {
		moves := memory.VerifMoves
		got, internal := runEmbedding(c.Lib, pl[name])
		if memory.VerifMoves > moves+1 {
			grew = true
		}
		if internal != "" {
			if strings.HasPrefix(internal, "step limit") {
				continue
			}
			return "", grew, "placement " + name + ": " + internal
		}
		if got.err != base.err {
			return fmt.Sprintf("at top level: %v\nplaced %q: %v\n%s", base, name, got, strings.Join(pl[name], "\n")), grew, ""
		}
		if base.err != "" {
			continue
		}
		// got.val is a list of results: every element must render as the base result
		if strings.HasPrefix(got.val, "ABORT") || strings.HasPrefix(got.val, "RESIDUE") {
			return fmt.Sprintf("placed %q: %s", name, got.val), grew, ""
		}
		if !allEqualTo(got.val, want) {
			return fmt.Sprintf("at top level the call gives %s\nplaced %q it gives %s\n%s", clipS(want), name, clipS(got.val), strings.Join(pl[name], "\n")), grew, ""
		}
	}
	// and the definitional value
	if o := diffSession(append(append([]string{}, c.Lib...), pl["top"]...), diffOpts{}); o.bad() {
		return o.kind + " " + o.why, grew, ""
	}
	return "", grew, ""
}

// allEqualTo tells whether list (rendered "[a, b, ...]") consists of repetitions of elem.
func allEqualTo(list, elem string) bool {
	inner := strings.TrimSuffix(strings.TrimPrefix(list, "["), "]")
	if inner == elem {
		return true
	}
	// n repetitions of elem separated by ", "
	if len(elem) == 0 {
		// the empty string renders as nothing
		return strings.ReplaceAll(inner, ", ", "") == ""
	}
	if (len(inner)+2)%(len(elem)+2) != 0 {
		return false
	}
	n := (len(inner) + 2) / (len(elem) + 2)
	return n >= 1 && inner == strings.TrimSuffix(strings.Repeat(elem+", ", n), ", ")
}

func c03Prop(rec *ev.Recorder) func(t *rapid.T) {
	return func(t *rapid.T) {
		c := c03Case{Lib: append([]string{}, c03Lib...),
			Wide: rapid.SampledFrom([]int{100, 127, 128, 129, 200, 300, 400}).Draw(t, "wide"),
			Deep: rapid.SampledFrom([]int{0, 1, 40, 60, 130, 500, 3000}).Draw(t, "depth"),
			Step: rapid.IntRange(0, 6).Draw(t, "step")}
		heavy := false
		if rapid.IntRange(0, 3).Draw(t, "source") == 0 {
			g := &gen.G{T: t, NoIO: true}
			c.Lib = append(c.Lib, g.Environment(rapid.IntRange(0, 3).Draw(t, "globals"), 0)[1:]...)
			def, call, other := g.PureFunction(rapid.IntRange(1, 3).Draw(t, "d"))
			c.Lib = append(c.Lib, def)
			c.Call, c.Other = call, other
			heavy = strings.Contains(def, "for ") || strings.Contains(def, "while ") || strings.Contains(def, "->")
		} else {
			c.Call, c.Other, heavy = c03Calls(t)
		}
		why, grew, skip := c03Check(c)
		if skip != "" {
			rec.Skip(strings.SplitN(skip, ":", 2)[0])
			return
		}
		if why != "" {
			fail(t, "C03", "call", c, "call %s\n%s", c.Call, why)
		}
		rec.Case(c.Call+"|"+c.Other+"|"+fmt.Sprint(c.Wide, c.Deep)+"|"+strings.Join(c.Lib[len(c03Lib):], "\n"), heavy && grew, fmt.Sprintf("stack-moved:%v", grew))
	}
}

func init() {
	replayers["C03"] = func(kind string, c json.RawMessage) string {
		var v c03Case
		mustJSON(c, &v)
		why, _, _ := c03Check(v)
		return why
	}
}

func TestC03(t *testing.T) {
	if replayMode(t, "C03") {
		return
	}
	rec := ev.New("C03", c03Rule,
		"results are compared through their printed form; function-valued results are exercised by calling them inside the call expression (app, compose, collect)",
		"the generated functions never read or write (no write/read/exit), so equal arguments and unchanged globals are guaranteed by construction")
	rec.Extra["regression_cases"] = runRegressions(t, "C03")
	defer finish(t, rec)
	_ = ref.Str
	rapid.Check(t, c03Prop(rec))
}
