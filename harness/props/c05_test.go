package props

import (
	"encoding/json"
	"fmt"
	"os"
	"strings"
	"testing"

	"pgregory.net/rapid"

	"github.com/paulsonkoly/calc/parser"

	"verif/harness/ev"
	"verif/harness/gen"
	"verif/harness/ref"
	"verif/harness/run"
)

// C05 No accepted program can crash the interpreter; failures are calc runtime errors.

const c05Rule = "sessions = a fixed prelude (functions, generators, closures, arrays) followed by 1-3 statements from the type-blind tree generator (every operator over every literal kind incl. extreme ints/floats, undefined names, wrong arities, control statements in every position) or typed sessions with random token-level mutations; both result modes; " +
	"non-trivial = the statements reach the VM (parse, reference within budget) and hold an operator, index or call applied to operands of arbitrary kind; distinct by session text"

var c05Prelude = []string{
	"h = (p, q) -> {\nfor i <- p() yield q(i)\n}",
	"k = () -> {\nyield () -> 1\nyield [1, 2]\nyield \"s\"\nreturn 4\n}",
	"a = 0", "b = 2.5", "c = \"str\"",
	"f = (x) -> x + 1",
	"g = () -> {\nyield 1\nyield 2\n}",
	"x = [1, [2, 3], \"s\"]",
	"w = 0",
	"mk = (n) -> (m) -> n + m",
	"cl = mk(3)",
	c05Wide(140),
}

// c05Wide is a function whose frame is wider than the initial stack of an
// iterator context, with a loop whose iterator reads its last local.
func c05Wide(n int) string {
	var sb strings.Builder
	sb.WriteString("wf = (p) -> {\n")
	for i := 0; i < n; i++ {
		fmt.Fprintf(&sb, "%s = p + %d\n", letters("y", i), i)
	}
	fmt.Fprintf(&sb, "s = 0\nfor q <- elems([%s, p]) s = s + q\ns\n}", letters("y", n-1))
	return sb.String()
}

var c05Names = []string{"a", "b", "c", "x", "w", "f", "g", "h", "k", "cl", "mk", "wf", "toa", "aton", "write", "fromto", "elems", "indices", "read", "undefined", "i", "e"}

// the documented runtime errors
func documentedError(c ref.ErrClass) bool {
	switch c {
	case ref.ENil, ref.EType, ref.EZero, ref.EIndex, ref.EArity, ref.EConv, ref.ERead:
		return true
	}
	return false
}

const c05FixedLimit = 3000000

// crashCheck runs a session on the real pipeline only looking for aborts; the
// reference runs first as a resource screen.
func crashCheck(stmts []string, discard bool) (kind, why string) {
	rf := ref.New()
	s := run.NewSession()
	ran := 0
	for i, src := range stmts {
		rr, perr := rf.RunStmt(src)
		if perr != nil {
			return "skip", "parse error"
		}
		if rr.Lim {
			return "skip", "reference budget"
		}
		if rr.Exit {
			return "skip", "exit"
		}
		limit := vmStepLimit(rr.Steps)
		if rr.Amb != "" {
			limit = c05FixedLimit
		}
		vr := s.Run(src, discard, limit)
		switch {
		case vr.Panic != "":
			return "PANIC", fmt.Sprintf("stmt %d: %s\n%s", i, firstLine(vr.Panic), stackTop(vr.Stack))
		case vr.ParseErr != nil:
			return "PANIC", fmt.Sprintf("stmt %d: parsed once, rejected the second time", i)
		case vr.Lim:
			return "skip", "vm step limit (inconclusive)"
		case vr.CompileErr != nil:
			return "skip", "refused at compile time"
		case vr.Err != "" && !documentedError(vr.Err):
			return "PANIC", fmt.Sprintf("stmt %d: undocumented error %q", i, vr.Err)
		}
		ran++
		if rr.Amb != "" {
			// the reference stopped half way: its session state may lag behind
			return "ok", ""
		}
	}
	return "ok", ""
}

func stackTop(st string) string {
	lines := []string{}
	for _, l := range strings.Split(st, "\n") {
		if strings.Contains(l, "/repo/") {
			lines = append(lines, strings.TrimSpace(l))
			if len(lines) == 3 {
				break
			}
		}
	}
	return strings.Join(lines, "\n")
}

var mutTokens = []string{"+", "-", "*", "/", "%", "<", "==", "&", "|", "<<", "#", "!", "~", "0", "1", "2.5", "\"s\"", "[]", "[1]", "true", "nil", "undefined", "f", "g", "(", ")", "[", "]", "x"}

// mutate applies token-level edits to a statement.
func mutate(t *rapid.T, src string) string {
	fields := strings.Fields(strings.ReplaceAll(src, "\n", " \n "))
	if len(fields) == 0 {
		return src
	}
	n := rapid.IntRange(1, 3).Draw(t, "edits")
	for i := 0; i < n; i++ {
		j := rapid.IntRange(0, len(fields)-1).Draw(t, "at")
		if fields[j] == "\n" {
			continue
		}
		switch rapid.IntRange(0, 2).Draw(t, "edit") {
		case 0:
			fields[j] = rapid.SampledFrom(mutTokens).Draw(t, "tok")
		case 1:
			fields[j] = ""
		default:
			fields[j] = fields[j] + " " + rapid.SampledFrom(mutTokens).Draw(t, "tok")
		}
	}
	return strings.ReplaceAll(strings.Join(fields, " "), " \n ", "\n")
}

func genBlindSession(t *rapid.T) []string {
	stmts := append([]string{}, c05Prelude...)
	if rapid.IntRange(0, 3).Draw(t, "source") == 0 {
		// mutated typed session
		g := &gen.G{T: t}
		for _, s := range g.Session() {
			if rapid.IntRange(0, 2).Draw(t, "mut") == 0 {
				m := mutate(t, s)
				if _, err := parser.Parse(m); err == nil {
					s = m
				}
			}
			stmts = append(stmts, s)
		}
		return stmts
	}
	g := &gen.TreeGen{T: t, Names: c05Names, Blind: true}
	n := rapid.IntRange(1, 3).Draw(t, "n")
	pr := &gen.Printer{C: gen.Plain{}}
	for i := 0; i < n; i++ {
		stmts = append(stmts, pr.Top(g.Block(rapid.IntRange(1, 4).Draw(t, "depth"))))
	}
	if rapid.IntRange(0, 5).Draw(t, "wide") == 0 {
		// a loop, then the wide-frame function with its own loop, in one statement (recycled contexts)
		stmts = append(stmts, fmt.Sprintf("{\nfor q <- g() q\nfor q, r <- g(), elems(x) q\nwf(%d)\n}", rapid.IntRange(0, 9).Draw(t, "arg")))
	}
	return stmts
}

func c05Prop(rec *ev.Recorder) func(t *rapid.T) {
	return func(t *rapid.T) {
		stmts := genBlindSession(t)
		discard := rapid.Bool().Draw(t, "discard")
		text := joinStmts(stmts[len(c05Prelude):])
		if strings.HasPrefix(stmts[len(c05Prelude)], "h = ") {
			text = joinStmts(stmts)
		}
		kind, why := crashCheck(stmts, discard)
		if kind == "PANIC" {
			fail(t, "C05", "session", map[string]any{"stmts": stmts, "discard": discard}, "%s\n%s", why, text)
		}
		if kind == "skip" {
			rec.Skip(why)
			rec.Case(text, false, "skipped")
			return
		}
		rec.Case(text, strings.ContainsAny(text, "+-*/%<>=&|#!~[("), fmt.Sprintf("discard:%v", discard))
	}
}

// c05Binary feeds generated programs to the built binary in file mode: faults
// that cannot be recovered in process (fatal errors) show as exit status 2.
func c05Binary(t *testing.T, rec *ev.Recorder, n int, seed int) {
	// a deterministic family: every operator over every pair of prelude values and extreme literals
	operands := []string{"a", "b", "c", "x", "f", "undefined", "0", "9223372036854775807", "1e308", "\"\"", "[]", "true", "x[1]", "f(1)", "g()", "cl(1)"}
	ops := gen.AllBinOps
	script := strings.Join(c05Prelude, "\n") + "\n"
	cnt := 0
	var sb strings.Builder
	sb.WriteString(script)
	for i := 0; i < n; i++ {
		j := i*7 + seed
		l, r, op := operands[j%len(operands)], operands[(j/len(operands)+i)%len(operands)], ops[(j/3)%len(ops)]
		fmt.Fprintf(&sb, "write(toa(%s %s %s))\n", l, op, r)
		fmt.Fprintf(&sb, "%s[%s]\n#%s\n", l, r, r)
		cnt += 3
	}
	r := runCalc(t, "file", sb.String(), "")
	if crashed(r) {
		ev.Repro("C05", "script", map[string]any{"script": sb.String()})
		t.Fatalf("file mode aborts (exit %d):\n%s", r.code, clipS(lastLines(r.out, 12)))
	}
	rec.Count("binary_statements", cnt)
	rec.Case("binary script of operator/operand products", true, "binary-file-mode")
}

// c05Extremes is a deterministic family in process: every operator, index and
// slice form over operands at the edges of the integer and float ranges.
func c05Extremes(t *testing.T, rec *ev.Recorder) {
	pre := []string{"ma = 9223372036854775807", "mi = 0 - ma - 1", "nan = 0.0 / 0.0", "inf = 1.0 / 0.0", "ninf = 0.0 - inf", "s = \"abc\"", "big = aton(\"1e308\")", "l = [1, 2, 3]", "e = []", "es = \"\""}
	ints := []string{"0", "1", "2", "3", "4", "(0 - 1)", "(0 - 2)", "ma", "mi", "(ma - 1)", "(mi + 1)", "(1 << 62)", "63", "64", "65"}
	nums := append(append([]string{}, ints...), "0.5", "big", "(0.0 - big)", "nan", "inf", "ninf", "(0.0 - 0.0)")
	stmts := []string{}
	for _, c := range []string{"s", "l", "e", "es", "\"語語\""} {
		for _, a := range ints {
			stmts = append(stmts, c+"["+a+"]")
			for _, b := range ints {
				stmts = append(stmts, c+"["+a+":"+b+"]")
			}
		}
	}
	for _, op := range gen.AllBinOps {
		for _, a := range nums {
			for _, b := range nums {
				stmts = append(stmts, a+" "+op+" "+b)
			}
		}
	}
	for _, a := range nums {
		stmts = append(stmts, "-"+a, "~"+a, "!"+a, "#"+a, "toa("+a+")", "aton(toa("+a+"))", "for i <- fromto("+a+", "+a+" + 2) i", "for i <- fromto(0 - 1, "+a+") return i")
	}
	// one session per 200 statements: a failure names its statement
	for i := 0; i < len(stmts); i += 200 {
		chunk := append(append([]string{}, pre...), stmts[i:min(i+200, len(stmts))]...)
		s := run.NewSession()
		for j, src := range chunk {
			vr := s.Run(src, false, 2000000)
			switch {
			case vr.Panic != "":
				ev.Repro("C05", "session", map[string]any{"stmts": append(append([]string{}, pre...), src), "discard": false})
				t.Fatalf("extreme operands, statement %d (%s): %s\n%s", i+j, src, firstLine(vr.Panic), stackTop(vr.Stack))
			case vr.ParseErr != nil:
				t.Fatalf("harness: %q does not parse: %v", src, vr.ParseErr)
			case vr.Err != "" && !documentedError(vr.Err):
				ev.Repro("C05", "session", map[string]any{"stmts": append(append([]string{}, pre...), src), "discard": false})
				t.Fatalf("extreme operands, statement %d (%s): undocumented error %q", i+j, src, vr.Err)
			}
		}
	}
	// a loop at the bottom of a very deep recursion while a loop at the top is suspended:
	// whatever keys the iterator contexts by call depth has to tell the two apart
	for _, depth := range []int{32767, 32768, 65535, 65536, 65537, 131072} {
		s := run.NewSession()
		for _, src := range []string{
			"deep = (n) -> {\nif n <= 0 {\nt = 0\nfor j <- fromto(0, 3) t = t + j\nreturn t\n}\ndeep(n - 1)\n}",
			fmt.Sprintf("{\nr = []\nfor i <- fromto(0, 2) r = r + [i * 10 + deep(%d)]\nr\n}", depth),
		} {
			vr := s.Run(src, false, 0)
			if vr.Panic != "" {
				ev.Repro("C05", "session", map[string]any{"stmts": []string{src}, "discard": false})
				t.Fatalf("loops at call depths 0 and %d: %s\n%s", depth, firstLine(vr.Panic), stackTop(vr.Stack))
			}
			if vr.Err != "" && !documentedError(vr.Err) {
				t.Fatalf("loops at call depths 0 and %d: undocumented error %q", depth, vr.Err)
			}
			if vr.Err == "" && strings.HasPrefix(src, "{") && ref.Str(vr.Val) != "[3, 13]" {
				ev.Repro("C05", "session", map[string]any{"stmts": []string{src}, "discard": false})
				t.Fatalf("loops at call depths 0 and %d: value %s, expected [3, 13]", depth, ref.Str(vr.Val))
			}
		}
	}
	rec.Count("extreme_operand_statements", len(stmts))
	rec.Case("operators, indices and slices over extreme operands", true, "extremes")
}

func lastLines(s string, n int) string {
	ls := strings.Split(strings.TrimRight(s, "\n"), "\n")
	if len(ls) > n {
		ls = ls[len(ls)-n:]
	}
	return strings.Join(ls, "\n")
}

func init() {
	replayers["C05"] = func(kind string, c json.RawMessage) string {
		switch kind {
		case "session":
			var v struct {
				Stmts   []string
				Discard bool
			}
			mustJSON(c, &v)
			if k, why := crashCheck(v.Stmts, v.Discard); k == "PANIC" {
				return why + "\n" + joinStmts(v.Stmts)
			}
		case "script":
			var v struct{ Script string }
			mustJSON(c, &v)
			if r := runCalc(replayT, "file", v.Script, ""); crashed(r) {
				return fmt.Sprintf("file mode aborts (exit %d):\n%s", r.code, clipS(lastLines(r.out, 12)))
			}
		}
		return ""
	}
}

func TestC05(t *testing.T) {
	replayT = t
	if replayMode(t, "C05") {
		return
	}
	rec := ev.New("C05", c05Rule,
		"the reference interpreter is used only to bound steps and value sizes; programs it cannot finish are skipped and counted",
		"exit() is never generated in process (it would end the test process); read() sees an exhausted standard input")
	rec.Extra["regression_cases"] = runRegressions(t, "C05")
	defer finish(t, rec)
	if os.Getenv("VERIF_SHARD") == "" || os.Getenv("VERIF_SHARD") == "0" {
		c05Binary(t, rec, 400*tierScale(), envInt("VERIF_SEED", 1))
	}
	if os.Getenv("VERIF_SHARD") == "" || os.Getenv("VERIF_SHARD") == "0" {
		c05Extremes(t, rec)
	}
	rapid.Check(t, c05Prop(rec))
}

// FuzzC05 drives the same property from coverage-guided byte strings (thorough tier only).
func FuzzC05(f *testing.F) {
	rec := ev.New("C05", c05Rule)
	f.Fuzz(rapid.MakeFuzz(c05Prop(rec)))
}
