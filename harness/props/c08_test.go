package props

import (
	"encoding/json"
	"fmt"
	"regexp"
	"strings"
	"testing"

	"pgregory.net/rapid"

	"github.com/paulsonkoly/calc/parser"

	"verif/harness/ev"
	"verif/harness/gen"
	"verif/harness/ref"
	"verif/harness/run"
)

// C08 A session survives errors: a failed statement leaves no trace but its globals.
//
// Generated: sessions in which statements that fail to parse or fail at run
// time (every error class, at top level, at call depth 1-20000, in loop bodies,
// in suspended generators, in nested generators, in child contexts, in zipped
// iterators, in conditions; several in a row) are mixed with statements that
// call functions, run loops and read the globals. Oracle (twin): the same
// session without the failures - carriers dropped, or with the failing
// statement replaced by `return 0` / the failing generator by one that ends at
// the same point - on a fresh VM; every other statement must give the same
// value, output and error. Oracle (reference): every statement equals the
// definitional interpreter, and the machine is clean after each failure.

const c08Rule = "sessions from gen.FaultGen: 5-25 statements after a fixed library, one third of them failure carriers (17 runtime error classes x 16 dynamic positions, parse errors, bursts of 2-3 failures), the rest observers (calls, loops, generator consumption, closures, global reads and updates); " +
	"non-trivial = at least one runtime failure at dynamic depth >= 2 followed by >= 2 statements that call functions or run loops; distinct by session text"

type stmtOutcome struct {
	val    string
	out    string
	err    ref.ErrClass
	parse  bool
	report bool
	resid  string
	abort  string
}

func runOutcomes(stmts []string) []stmtOutcome {
	s := run.NewSession()
	res := make([]stmtOutcome, 0, len(stmts))
	for _, src := range stmts {
		vr := s.Run(src, false, 5000000)
		o := stmtOutcome{out: vr.Written(), err: vr.Err, parse: vr.ParseErr != nil, report: vr.Report() != ""}
		switch {
		case vr.Panic != "":
			o.abort = firstLine(vr.Panic)
		case vr.Lim:
			o.abort = "does not finish"
		case vr.Err == "" && vr.ParseErr == nil:
			o.val = ref.Str(vr.Val)
			o.resid = vr.Resid
		default:
			o.resid = s.Residue()
		}
		res = append(res, o)
		if o.abort != "" {
			break
		}
	}
	return res
}

// c08Twin compares the session with its failure-free twin.
func c08Twin(fs gen.FaultSession) (why string, skip string) {
	real := runOutcomes(fs.Real)
	twin := runOutcomes(fs.Twin)
	for i, o := range real {
		if o.abort != "" {
			return fmt.Sprintf("statement %d aborts the interpreter: %s\n%s", i, o.abort, clipS(fs.Real[i])), ""
		}
	}
	for i, o := range twin {
		if o.abort != "" {
			return fmt.Sprintf("twin statement %d aborts the interpreter: %s\n%s", i, o.abort, clipS(fs.Twin[i])), ""
		}
	}
	if len(real) != len(fs.Real) || len(twin) != len(fs.Twin) {
		return "INTERNAL: sessions cut short", ""
	}
	for i, r := range real {
		if r.resid != "" {
			return fmt.Sprintf("after statement %d the machine is not clean: %s\n%s", i, r.resid, clipS(fs.Real[i])), ""
		}
		ti := fs.TwinOf[i]
		if fs.Carrier[i] {
			if !r.parse && r.err == "" {
				return "", "a carrier did not fail"
			}
			if r.err != "" && !r.report {
				return fmt.Sprintf("statement %d fails with %q but prints no report", i, r.err), ""
			}
			if ti >= 0 {
				tw := twin[ti]
				if tw.err != "" || tw.parse {
					return "", "a twin statement fails"
				}
				if r.out != tw.out {
					return fmt.Sprintf("failing statement %d writes %q before the report, its failure-free twin writes %q\n%s", i, clipS(r.out), clipS(tw.out), clipS(fs.Real[i])), ""
				}
			}
			continue
		}
		tw := twin[ti]
		if r.val != tw.val || r.out != tw.out || r.err != tw.err || r.parse != tw.parse {
			return fmt.Sprintf("statement %d (%s)\n  after the failures: value %s output %q error %q\n  in the session that never saw them: value %s output %q error %q",
				i, clipS(fs.Real[i]), clipS(r.val), clipS(r.out), r.err, clipS(tw.val), clipS(tw.out), tw.err), ""
		}
	}
	return "", ""
}

// ---------------------------------------------------------------------------
// the same comparison through the built binary (file mode): what the statement
// reader and the compile step of the REPL loop do around a failure is part of
// the session as well

var reportRe = regexp.MustCompile(`RUNTIME ERROR : [^\n]*\n(?:(?:    |--> )[^\n]*\n)*(?:memory context [^\n]*\n= stack =+\n(?:IP: [^\n]*\n|No debug[^\n]*\n|corrupt[^\n]*\n)*(?:=+\n)?)*`)

const c08Probe = "write(\"|\" + toa([ga, gb, acc]) + \"|\\n\")"

// c08Script joins the statements; after each one (except those marked noProbe:
// carriers that do not exist in the twin) the globals are written out.
func c08Script(stmts []string, skip, noProbe, join map[int]bool) string {
	var sb strings.Builder
	for i, s := range stmts {
		if skip[i] {
			continue
		}
		if join[i] {
			// the next statement follows on the same line
			sb.WriteString(s + " ")
			continue
		}
		sb.WriteString(s + "\n")
		if i >= len(gen.FaultPrelude) && !noProbe[i] {
			sb.WriteString(c08Probe + "\n")
		}
	}
	return sb.String()
}

// c08Binary runs the session and its twin as script files; with the error
// reports cut out the two outputs must be equal.
func c08Binary(tb testing.TB, fs gen.FaultSession) string {
	skipReal, skipTwin, dropped := map[int]bool{}, map[int]bool{}, map[int]bool{}
	rejected := []string{}
	for i, s := range fs.Real {
		if fs.TwinOf[i] < 0 {
			dropped[i] = true
		}
		if _, perr := parser.Parse(s); perr != nil {
			if dropped[i] && gen.ReaderSafe(s) {
				// a one-line statement that the front end rejects stays in the script: what the
				// statement reader keeps from it is part of the session; its message is cut out below
				rejected = append(rejected, s)
				continue
			}
			// other parse errors print an excerpt of the input; they are left to the in-process comparison
			skipReal[i] = true
			if fs.TwinOf[i] >= 0 {
				skipTwin[fs.TwinOf[i]] = true
			}
		}
	}
	// several statements on one line: a failing one must not take the ones after it with it
	join := map[int]bool{}
	for i := len(gen.FaultPrelude); i+1 < len(fs.Real); i++ {
		a, b := fs.Real[i], fs.Real[i+1]
		if i%2 == 0 && dropped[i] && !skipReal[i] && !dropped[i+1] && !skipReal[i+1] && !join[i-1] &&
			!strings.Contains(a, "\n") && !strings.Contains(b, "\n") && !gen.ReaderSafe(a) {
			if one, perr := parser.Parse(a); perr == nil && len(one) == 1 {
				if two, perr := parser.Parse(a + " " + b); perr == nil && len(two) == 2 {
					join[i] = true
				}
			}
		}
	}
	real := runCalc(tb, "file", c08Script(fs.Real, skipReal, dropped, join), "")
	twin := runCalc(tb, "file", c08Script(fs.Twin, skipTwin, nil, nil), "")
	if crashed(real) {
		return fmt.Sprintf("the binary aborts on the session:\n%s", clipS(lastLines(real.out, 10)))
	}
	if crashed(twin) {
		return fmt.Sprintf("the binary aborts on the twin session:\n%s", clipS(lastLines(twin.out, 10)))
	}
	a, b := reportRe.ReplaceAllString(real.out, ""), reportRe.ReplaceAllString(twin.out, "")
	for _, s := range rejected {
		// message, the echoed line, the marker line
		re := regexp.MustCompile(`(?m)^(?:Parser|Lexer): [^\n]*\n` + regexp.QuoteMeta(s) + `\n *\^[~^]*\n`)
		if loc := re.FindStringIndex(a); loc != nil {
			a = a[:loc[0]] + a[loc[1]:]
		}
	}
	if a != b {
		i := 0
		for i < len(a) && i < len(b) && a[i] == b[i] {
			i++
		}
		lo := max(0, i-120)
		return fmt.Sprintf("file mode: after %d equal bytes the session with failures prints\n  ...%s\nthe session that never saw them prints\n  ...%s", i, clipS(a[lo:]), clipS(b[lo:]))
	}
	return ""
}

func c08Check(fs gen.FaultSession, checkReport bool) (why, skip string, o outcome) {
	why, skip = c08Twin(fs)
	if why != "" || skip != "" {
		return
	}
	// the definitional semantics: parse-error statements are skipped there
	stmts := []string{}
	for _, s := range fs.Real {
		if _, perr := parser.Parse(s); perr != nil {
			continue
		}
		stmts = append(stmts, s)
	}
	o = diffSession(stmts, diffOpts{checkReport: checkReport})
	if o.bad() {
		return o.kind + " " + o.why, "", o
	}
	return "", "", o
}

func c08Prop(rec *ev.Recorder, tb testing.TB) func(t *rapid.T) {
	nth := 0
	return func(t *rapid.T) {
		g := &gen.FaultGen{T: t}
		fs := g.Session()
		nth++
		if nth%8 == 0 {
			// every 8th session also goes through the binary
			if why := c08Binary(tb, fs); why != "" {
				fail(t, "C08", "binary", fs, "%s\n--- session (after the library)\n%s", why, fs.Text())
			}
			rec.Count("sessions_through_the_binary", 1)
		}
		why, skip, o := c08Check(fs, false)
		if why != "" {
			fail(t, "C08", "session", fs, "%s\n--- session (after the library)\n%s", why, fs.Text())
		}
		if skip != "" {
			rec.Skip(skip)
			return
		}
		if o.kind == "skip" {
			rec.Skip("reference: " + o.why)
		}
		rec.Count("failures", fs.Failures)
		rec.Count("failures_at_depth", fs.Deep)
		rec.Case(fs.Text(), fs.Deep >= 1 && fs.Followed >= 2, fmt.Sprintf("failures:%d", min(fs.Failures, 8)))
	}
}

func init() {
	replayers["C08"] = func(kind string, c json.RawMessage) string {
		var v gen.FaultSession
		mustJSON(c, &v)
		if kind == "binary" {
			return c08Binary(replayT, v)
		}
		why, _, _ := c08Check(v, false)
		return why
	}
}

func TestC08(t *testing.T) {
	replayT = t
	if replayMode(t, "C08") {
		return
	}
	rec := ev.New("C08", c08Rule,
		"the twin is built syntactically: dropping a simple failing statement, replacing the failing statement of a block or top-level loop by `return 0`, or the failing generator by one that ends after the same number of yields, leaves exactly the globals completed before the failure",
		"read() fails because the test process has an exhausted standard input")
	rec.Extra["regression_cases"] = runRegressions(t, "C08")
	defer finish(t, rec)
	rapid.Check(t, c08Prop(rec, t))
}
