//go:build verif

package props

import (
	"regexp"
	"strings"
	"testing"

	"pgregory.net/rapid"
	"verif/harness/gen"
)

func TestZZCount(t *testing.T) {
	re := regexp.MustCompile(`[gl][a-z]+ \+ \([gl"\[]`)
	n, hit := 0, 0
	samples := []string{}
	rapid.Check(t, func(t *rapid.T) {
		g := &gen.G{T: t}
		s := strings.Join(g.Session(), "\n")
		n++
		if m := re.FindString(s); m != "" {
			hit++
			if len(samples) < 8 {
				i := strings.Index(s, m)
				j := i + 60
				if j > len(s) {
					j = len(s)
				}
				samples = append(samples, s[i:j])
			}
		}
	})
	t.Logf("sessions %d with pattern %d\n%s", n, hit, strings.Join(samples, "\n---\n"))
}
