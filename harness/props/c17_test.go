package props

import (
	"encoding/json"
	"fmt"
	"math"
	"os"
	"strconv"
	"strings"
	"testing"

	"pgregory.net/rapid"

	"verif/harness/ev"
	"verif/harness/ref"
	"verif/harness/run"
)

// C17 Built-in functions keep their contracts for every argument.

const c17Rule = "(a) values: ints (boundary set and random), finite floats (bit patterns, via aton of their shortest spelling), nested arrays, strings; toa/write agreement, aton(toa(n)) == n, fromto / elems / indices against closed forms, wrong types and arities; compared with closed forms computed in Go and with the reference; " +
	"(b) read(): random line lists (arbitrary bytes, lengths up to 20000 crossing the 4096 byte buffer, optional unterminated last line) piped to scripts that call read() k times directly, in a loop, in a generator and through a function, k up to lines+2, through the built binary; " +
	"non-trivial = every case (each exercises one contract on generated arguments); distinct by program / input text"

// calcLit spells a value as calc source.
func calcLit(v ref.V) string {
	switch x := v.(type) {
	case int:
		if x == math.MinInt64 {
			return "(0 - 9223372036854775807 - 1)"
		}
		if x < 0 {
			return "(0 - " + strconv.Itoa(-x) + ")"
		}
		return strconv.Itoa(x)
	case float64:
		sp := strconv.FormatFloat(x, 'g', -1, 64)
		if !strings.ContainsAny(sp, ".e") {
			sp += ".0" // aton reads an integer spelling as an int
		}
		return "aton(\"" + sp + "\")"
	case bool:
		return strconv.FormatBool(x)
	case string:
		return "\"" + strings.ReplaceAll(x, "\"", "\\\"") + "\""
	case ref.Arr:
		parts := []string{}
		for _, e := range x {
			parts = append(parts, calcLit(e))
		}
		return "[" + strings.Join(parts, ", ") + "]"
	}
	panic(fmt.Sprintf("calcLit %T", v))
}

func genPlainValue(t *rapid.T, depth int) ref.V {
	switch rapid.IntRange(0, 5).Draw(t, "kind") {
	case 0, 1:
		if rapid.Bool().Draw(t, "boundary") {
			return rapid.SampledFrom(c11Ints).Draw(t, "int")
		}
		return rapid.Int().Draw(t, "int")
	case 2:
		f := rapid.Float64().Draw(t, "float")
		if math.IsNaN(f) || math.IsInf(f, 0) {
			f = 1.5
		}
		return f
	case 3:
		return rapid.Bool().Draw(t, "bool")
	case 4:
		// no backslash: the literal syntax keeps them as written, nothing to test here
		return rapid.StringMatching(`[a-z0-9 {}\[\];"é.+-]{0,8}`).Draw(t, "string")
	default:
		if depth <= 0 {
			return ref.Arr{}
		}
		n := rapid.IntRange(0, 4).Draw(t, "len")
		a := ref.Arr{}
		for i := 0; i < n; i++ {
			a = append(a, genPlainValue(t, depth-1))
		}
		return a
	}
}

// runValues runs statements on a fresh session and returns the rendering of
// each value ("ERR <class>" for runtime errors) and everything written.
func runValues(stmts []string) (vals []string, out string, abort string) {
	s := run.NewSession()
	for i, src := range stmts {
		vr := s.Run(src, false, 5000000)
		switch {
		case vr.Panic != "":
			return nil, "", fmt.Sprintf("stmt %d aborts: %s", i, firstLine(vr.Panic))
		case vr.ParseErr != nil:
			return nil, "", fmt.Sprintf("INTERNAL stmt %d does not parse: %v\n%s", i, vr.ParseErr, src)
		case vr.Lim:
			return nil, "", fmt.Sprintf("stmt %d does not finish", i)
		}
		out += vr.Written()
		if vr.Err != "" {
			vals = append(vals, "ERR "+string(vr.Err))
		} else {
			vals = append(vals, ref.Display(vr.Val))
		}
	}
	return
}

type c17Case struct {
	Stmts  []string `json:"stmts"`
	Expect []string `json:"expect"` // expected rendering per statement, "" = compared with the reference only
	Out    string   `json:"out"`    // expected output, "\x00" = compared with the reference only
}

func c17Check(c c17Case) string {
	vals, out, abort := runValues(c.Stmts)
	if abort != "" {
		return abort
	}
	for i, want := range c.Expect {
		if want != "" && vals[i] != want {
			return fmt.Sprintf("stmt %d (%s): %s, contract: %s", i, clipS(c.Stmts[i]), clipS(vals[i]), clipS(want))
		}
	}
	if c.Out != "\x00" && out != c.Out {
		return fmt.Sprintf("output %q, contract: %q", clipS(out), clipS(c.Out))
	}
	if o := diffSession(c.Stmts, diffOpts{}); o.bad() {
		return o.kind + " " + o.why
	}
	return ""
}

// fromtoSeq is the closed form of fromto for numbers.
func fromtoSeq(a, b ref.V) ref.Arr {
	res := ref.Arr{}
	x := a
	for i := 0; i < 1000; i++ {
		lt, err := ref.Try(func() ref.V { return ref.BinOp("<", x, b) })
		if err != nil || !lt.(bool) {
			break
		}
		res = append(res, x)
		x = ref.BinOp("+", x, 1)
	}
	return res
}

func c17ValueProp(rec *ev.Recorder) func(t *rapid.T) {
	return func(t *rapid.T) {
		var c c17Case
		c.Out = "\x00"
		label := ""
		switch rapid.IntRange(0, 8).Draw(t, "contract") {
		case 8: // the names of the built-ins are ordinary globals: rebinding one must not change what the others do
			collect := func(it string) string { return "{\nzr = []\nfor zi <- " + it + " zr = zr + [zi]\nzr\n}" }
			checks := map[string][][2]string{
				"fromto":  {{collect("indices(\"abc\")"), "[0, 1, 2]"}, {collect("elems([7, 8])"), "[7, 8]"}, {collect("indices([])"), "[]"}, {"toa([1, \"a\"])", ref.Display("[1, a]")}},
				"elems":   {{collect("indices([5, 6])"), "[0, 1]"}, {collect("fromto(2, 5)"), "[2, 3, 4]"}},
				"indices": {{collect("elems(\"xy\")"), ref.Display(ref.Arr{"x", "y"})}, {collect("fromto(0, 2)"), "[0, 1]"}},
				"toa":     {{"aton(\"12\") + 1", "13"}, {collect("fromto(1, 3)"), "[1, 2]"}},
				"aton":    {{"toa(12)", ref.Display("12")}, {collect("indices(\"ab\")"), "[0, 1]"}},
				"write":   {{"toa([1])", ref.Display("[1]")}, {collect("elems([3])"), "[3]"}},
			}
			names := []string{"fromto", "elems", "indices", "toa", "aton", "write"}
			name := rapid.SampledFrom(names).Draw(t, "rebound")
			repl := rapid.SampledFrom([]string{
				"(a, b) -> {\nzi = a\nwhile zi <= b {\nyield zi\nzi = zi + 1\n}\n}", // an inclusive range
				"(a) -> {\nyield 41\nyield 42\nyield 43\nyield 44\n}",
				"(a, b, c) -> 0", "7", "(a) -> a", "\"text\"",
			}).Draw(t, "replacement")
			c.Stmts = []string{name + " = " + repl}
			c.Expect = []string{""}
			for _, ch := range checks[name] {
				c.Stmts = append(c.Stmts, ch[0])
				c.Expect = append(c.Expect, ch[1])
			}
			label = "rebound:" + name
		case 0: // write(x) prints what toa(x) returns
			v := genPlainValue(t, 2)
			c.Stmts = []string{"zv = " + calcLit(v), "write(zv)", "toa(zv)", "write(toa(zv))"}
			c.Expect = []string{"", "nil", ref.Display(ref.Str(v)), "nil"}
			c.Out = ref.Str(v) + ref.Str(v)
			label = "write=toa"
		case 1: // aton(toa(n)) == n
			var v ref.V = rapid.OneOf(rapid.SampledFrom(c11Ints), rapid.Int()).Draw(t, "int")
			if rapid.Bool().Draw(t, "float") {
				f := rapid.Float64().Draw(t, "float")
				if math.IsNaN(f) || math.IsInf(f, 0) {
					f = 0.1
				}
				v = f
			}
			c.Stmts = []string{"zv = " + calcLit(v), "aton(toa(zv)) == zv", "toa(zv)"}
			c.Expect = []string{"", "true", ref.Display(ref.Str(v))}
			label = "aton(toa)"
		case 2: // fromto
			var a, b ref.V
			a = rapid.IntRange(-20, 20).Draw(t, "a")
			b = rapid.IntRange(-25, 60).Draw(t, "b")
			if rapid.IntRange(0, 3).Draw(t, "floats") == 0 {
				a = float64(a.(int)) + rapid.SampledFrom([]float64{0, 0.5, 0.25}).Draw(t, "fa")
			}
			if rapid.IntRange(0, 3).Draw(t, "floatb") == 0 {
				b = float64(b.(int)) + rapid.SampledFrom([]float64{0, 0.5, 0.75}).Draw(t, "fb")
			}
			c.Stmts = []string{"zr = []", fmt.Sprintf("for zi <- fromto(%s, %s) zr = zr + [zi]", calcLit(a), calcLit(b)), "zr"}
			c.Expect = []string{"", "", ref.Display(fromtoSeq(a, b))}
			label = "fromto"
		case 3, 4: // elems / indices
			var x ref.V
			if rapid.Bool().Draw(t, "str") {
				x = rapid.StringMatching(`[a-z0-9 ]{0,40}`).Draw(t, "s")
			} else {
				n := rapid.IntRange(0, 30).Draw(t, "len")
				a := ref.Arr{}
				for i := 0; i < n; i++ {
					a = append(a, genPlainValue(t, 1))
				}
				x = a
			}
			var es, is ref.Arr
			switch s := x.(type) {
			case string:
				for i := 0; i < len(s); i++ {
					es, is = append(es, string(s[i])), append(is, i)
				}
			case ref.Arr:
				for i, e := range s {
					es, is = append(es, e), append(is, i)
				}
			}
			if es == nil {
				es, is = ref.Arr{}, ref.Arr{}
			}
			c.Stmts = []string{"zx = " + calcLit(x), "ze = []", "for zi <- elems(zx) ze = ze + [zi]", "ze", "zn = []", "for zi <- indices(zx) zn = zn + [zi]", "zn",
				"for zi, zj <- indices(zx), elems(zx) if !(zx[zi] == zj) & zj == zj return \"mismatch\""}
			c.Expect = []string{"", "", "", ref.Display(es), "", "", ref.Display(is), ""}
			label = "elems/indices"
		case 5: // wrong argument types
			bad := rapid.SampledFrom([]string{
				"fromto(\"a\", 3)", "fromto(1, \"b\")", "fromto(true, 2)", "fromto([], 2)", "elems(5)", "elems(true)", "elems(2.5)", "indices(7)", "indices(false)",
				"aton(5)", "aton([])", "aton(true)", "aton(\"abc\")", "aton(\"\")", "aton(\"1 2\")", "elems(nothing)", "aton(nothing)", "fromto(nothing, 1)",
			}).Draw(t, "bad")
			c.Stmts = []string{"for zi <- " + bad + " zi"}
			if strings.HasPrefix(bad, "aton") {
				c.Stmts = []string{bad}
			}
			vals, _, abort := runValues(c.Stmts)
			if abort != "" {
				fail(t, "C17", "values", c, "%s", abort)
			}
			if !strings.HasPrefix(vals[0], "ERR ") {
				fail(t, "C17", "values", c, "%s gives %s, contract: a runtime error", bad, vals[0])
			}
			label = "wrong-type"
		case 6: // wrong argument counts
			bad := rapid.SampledFrom([]string{"toa()", "toa(1, 2)", "write()", "write(1, 2)", "aton()", "aton(\"1\", 2)", "read(1)", "fromto(1)", "fromto()", "fromto(1, 2, 3)", "elems()", "elems([], [])", "indices()", "indices(\"a\", 1)"}).Draw(t, "bad")
			c.Stmts = []string{bad}
			c.Expect = []string{"ERR " + string(ref.EArity)}
			label = "wrong-arity"
		default: // write returns nothing and prints nested values as toa renders them
			v := genPlainValue(t, 3)
			c.Stmts = []string{"write([" + calcLit(v) + ", " + calcLit(v) + "])"}
			c.Expect = []string{"nil"}
			c.Out = "[" + ref.Str(v) + ", " + ref.Str(v) + "]"
			label = "write-nested"
		}
		if why := c17Check(c); why != "" {
			fail(t, "C17", "values", c, "%s\n%s", why, joinStmts(c.Stmts))
		}
		rec.Case(joinStmts(c.Stmts), true, label)
	}
}

// ---------------------------------------------------------------------------
// read()

type readCase struct {
	Lines      []string `json:"lines"` // without line breaks
	FinalBreak bool     `json:"final_break"`
	K          int      `json:"k"`
	Shape      int      `json:"shape"`
}

// failing statements that run between two reads (shapes 4 and 5)
var readFailTop = []string{"aton(5)", "[1][3]", "1 / 0", "nothingx + 1", "elems(5)", "toa(1, 2)", "aton(\"x\")"}
var readFailDeep = []string{"dbad(3)", "for v <- gbad(2) v", "for a, b <- fromto(0, 3), gbad(1) a", "[1, dbad(0)]"}

func readScript(shape, k int) string {
	if shape%6 >= 4 {
		fails := readFailTop
		pre := ""
		if shape%6 == 5 {
			fails = readFailDeep
			pre = "dbad = (n) -> if n <= 0 1 / 0 else 1 + dbad(n - 1)\ngbad = (n) -> {\ni = 0\nwhile i < n {\nyield i\ni = i + 1\n}\nyield [1][n + 5]\n}\n"
		}
		var sb strings.Builder
		sb.WriteString(pre)
		for i := 0; i < k; i++ {
			sb.WriteString("write(\"<\" + read() + \">\")\n" + fails[(i+shape/6)%len(fails)] + "\n")
		}
		return sb.String()
	}
	switch shape % 6 {
	case 0:
		return strings.Repeat("write(\"<\" + read() + \">\")\n", k)
	case 1:
		return fmt.Sprintf("i = 0\nwhile i < %d {\nwrite(\"<\" + read() + \">\")\ni = i + 1\n}\n", k)
	case 2:
		return fmt.Sprintf("lines = (n) -> {\ni = 0\nwhile i < n {\nyield read()\ni = i + 1\n}\n}\nfor l <- lines(%d) write(\"<\" + l + \">\")\n", k)
	default:
		return fmt.Sprintf("rd = () -> read()\ntwo = () -> [rd(), rd()]\nj = 0\nwhile j < %d {\nfor l <- elems(two()) write(\"<\" + l + \">\")\nj = j + 2\n}\n", k)
	}
}

func readCheck(t testing.TB, c readCase) string {
	input := strings.Join(c.Lines, "\n")
	if c.FinalBreak && len(c.Lines) > 0 {
		input += "\n"
	}
	// lines as a reader sees them: an empty unterminated last line does not exist
	lines := c.Lines
	if len(lines) > 0 && !c.FinalBreak && lines[len(lines)-1] == "" {
		lines = lines[:len(lines)-1]
	}
	k := c.K
	if c.Shape%6 == 3 && k%2 == 1 {
		k++
	}
	r := runCalc(t, "file", readScript(c.Shape, c.K), input)
	if crashed(r) {
		return fmt.Sprintf("aborts:\n%s", clipS(r.out))
	}
	out := r.out
	if c.Shape%6 >= 4 {
		// the reports of the failing statements between the reads are not the subject here
		out = reportRe.ReplaceAllStringFunc(out, func(m string) string {
			if strings.HasPrefix(m, "RUNTIME ERROR : read error") {
				return m
			}
			return ""
		})
	}
	shown := min(k, len(lines))
	if c.Shape%6 == 3 && k > len(lines) {
		// this script reads two lines before it writes them: the failing pair prints nothing
		shown = len(lines) / 2 * 2
	}
	for i := 0; i < shown; i++ {
		want := "<" + lines[i]
		if !strings.HasPrefix(out, want) {
			return fmt.Sprintf("read() number %d returns %q..., line %d of the input is %q", i+1, clipS(out[:min(len(out), len(want)+10)]), i+1, clipS(lines[i]))
		}
		out = out[len(want):]
		// the line break may or may not be part of the returned string
		out = strings.TrimPrefix(out, "\n")
		if !strings.HasPrefix(out, ">") {
			return fmt.Sprintf("read() number %d returns more than line %d: %q...", i+1, i+1, clipS(out[:min(len(out), 20)]))
		}
		out = out[1:]
	}
	if k > len(lines) {
		if !strings.HasPrefix(out, "RUNTIME ERROR : read error") {
			return fmt.Sprintf("read() number %d on exhausted input: %q, contract: a read error", len(lines)+1, clipS(out[:min(len(out), 60)]))
		}
	} else if out != "" {
		return fmt.Sprintf("unexpected output after %d reads: %q", k, clipS(out))
	}
	return ""
}

func c17ReadProp(rec *ev.Recorder, tb testing.TB) func(t *rapid.T) {
	line := rapid.OneOf(
		rapid.StringMatching(`[a-z0-9 <>"{};]{0,30}`),
		rapid.Just(""),
		rapid.Map(rapid.IntRange(4000, 4200), func(n int) string { return strings.Repeat("x", n) }),
		rapid.Map(rapid.IntRange(8100, 20000), func(n int) string { return strings.Repeat("yz", n/2) }),
		rapid.Map(rapid.SliceOfN(rapid.Byte(), 0, 20), func(b []byte) string { return strings.ReplaceAll(string(b), "\n", "") }),
	)
	return func(t *rapid.T) {
		c := readCase{
			Lines:      rapid.SliceOfN(line, 0, 8).Draw(t, "lines"),
			FinalBreak: rapid.Bool().Draw(t, "final"),
			Shape:      rapid.IntRange(0, 17).Draw(t, "shape"),
		}
		c.K = rapid.IntRange(0, len(c.Lines)+2).Draw(t, "k")
		if why := readCheck(tb, c); why != "" {
			fail(t, "C17", "read", c, "%s\n--- script\n%s", why, readScript(c.Shape, c.K))
		}
		total := 0
		for _, l := range c.Lines {
			total += len(l)
		}
		rec.Case(fmt.Sprintf("read shape %d k %d final %v lines %q", c.Shape, c.K, c.FinalBreak, clipS(strings.Join(c.Lines, "|"))), true, "read", fmt.Sprintf("crosses-buffer:%v", total > 4096))
	}
}

func init() {
	replayers["C17"] = func(kind string, c json.RawMessage) string {
		switch kind {
		case "values":
			var v c17Case
			mustJSON(c, &v)
			if len(v.Expect) == 0 {
				vals, _, abort := runValues(v.Stmts)
				if abort != "" {
					return abort
				}
				if !strings.HasPrefix(vals[len(vals)-1], "ERR ") {
					return "no runtime error: " + vals[len(vals)-1]
				}
				return ""
			}
			return c17Check(v)
		case "read":
			var v readCase
			mustJSON(c, &v)
			return readCheck(replayT, v)
		}
		return ""
	}
}

func TestC17(t *testing.T) {
	replayT = t
	if replayMode(t, "C17") {
		return
	}
	rec := ev.New("C17", c17Rule,
		"whether the string read() returns includes the line break is not part of the contract: both are accepted",
		"floats are finite; NaN and infinities have no literal and no documented rendering contract")
	rec.Extra["regression_cases"] = runRegressions(t, "C17")
	defer finish(t, rec)
	vp, rp := c17ValueProp(rec), c17ReadProp(rec, t)
	_ = os.Stdin
	rapid.Check(t, func(t *rapid.T) {
		if rapid.IntRange(0, 3).Draw(t, "which") == 0 {
			rp(t)
		} else {
			vp(t)
		}
	})
}
