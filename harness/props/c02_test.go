package props

import (
	"encoding/json"
	"fmt"
	"os"
	"strings"
	"testing"

	"pgregory.net/rapid"

	"verif/harness/ev"
	"verif/harness/gen"
)

// C02 for loops consume exactly what their iterators yield, lazily and in order.
//
// Generated: sessions around a library of generators and combinators
// (gen.IterGen): compositions to depth 4, zipped loops of unequal length,
// nested loops, loops in recursive functions, early returns, value-position
// yields; generators and loop bodies write a trace. Oracle: the reference's
// coroutine semantics - loop values, accumulators and the order of the trace.

const c02Rule = "sessions from gen.IterGen over the generator library (map, filter, zip, chain, take, traced counters, recursive / conditional / nested generators, generator factories, value-position yield) plus typed sessions from gen.G; " +
	"non-trivial = the reference resumed generators at least twice and either nested coroutines >= 2 deep, or the session holds a zip / multi-iterator loop; distinct by session text"

func c02Prop(rec *ev.Recorder) func(t *rapid.T) {
	return func(t *rapid.T) {
		var stmts []string
		zips := 0
		if rapid.IntRange(0, 4).Draw(t, "source") == 0 {
			g := &gen.G{T: t}
			stmts = g.Session()
		} else {
			g := &gen.IterGen{T: t}
			stmts = append(append([]string{}, gen.IterPrelude...), g.Session()...)
			zips = g.Zips
		}
		discard := rapid.IntRange(0, 3).Draw(t, "discard") == 0
		text := joinStmts(stmts)
		if strings.HasPrefix(text, gen.IterPrelude[0]) {
			text = joinStmts(stmts[len(gen.IterPrelude):])
		}
		o := diffSession(stmts, diffOpts{discard: discard})
		if o.bad() {
			fail(t, "C02", "session", map[string]any{"stmts": stmts, "discard": discard}, "%s %s\n%s", o.kind, o.why, text)
		}
		if o.kind == "skip" {
			if strings.HasPrefix(o.why, "parse") && os.Getenv("DBG") != "" {
				fmt.Println("DBGPARSE", o.why, "\n", text)
			}
			rec.Skip(o.why)
			rec.Case(text, false, "skipped")
			return
		}
		rec.Count("generator_resumptions", o.resumes)
		if o.maxGen > recMax(rec, "max_coroutine_nesting") {
			rec.Extra["max_coroutine_nesting"] = o.maxGen
		}
		nt := o.resumes >= 2 && (o.maxGen >= 2 || zips > 0)
		rec.Case(text, nt, fmt.Sprintf("nesting:%d", min(o.maxGen, 6)), "outcome:"+o.kind)
	}
}

func init() {
	replayers["C02"] = func(kind string, c json.RawMessage) string {
		var v struct {
			Stmts   []string
			Discard bool
		}
		mustJSON(c, &v)
		if o := diffSession(v.Stmts, diffOpts{discard: v.Discard}); o.bad() {
			return fmt.Sprintf("%s %s\n%s", o.kind, o.why, joinStmts(v.Stmts))
		}
		return ""
	}
}

func TestC02(t *testing.T) {
	if replayMode(t, "C02") {
		return
	}
	rec := ev.New("C02", c02Rule,
		"the reference interpreter's coroutine semantics (iter.Pull per iterator expression, rounds pull left to right, stop at the first exhausted iterator) is the definition",
		"iterator expressions run on a copy of the frame in the implementation; programs whose result depends on that are flagged by the reference and skipped (counted)")
	rec.Extra["regression_cases"] = runRegressions(t, "C02")
	defer finish(t, rec)
	rapid.Check(t, c02Prop(rec))
}
