package props

import (
	"encoding/json"
	"fmt"
	"regexp"
	"strings"
	"testing"

	"pgregory.net/rapid"

	"verif/harness/ev"
	"verif/harness/gen"
	"verif/harness/ref"
	"verif/harness/run"
)

// C04 Lexical scoping and isolation: a call cannot disturb its caller.
//
// Generated: sessions over a small shared pool of variable names
// (gen.ScopeGen) so that globals, parameters, locals, loop variables and
// captured variables shadow each other; closures escape directly, inside
// arrays, through an identity function and out of generators. Oracle: the
// reference (own resolver pass) for every statement; and, on the VM alone, a
// probe of every global after each statement: a statement that is not a
// top-level assignment must leave all of them unchanged.

const c04Rule = "sessions from gen.ScopeGen (8 shared names used as globals, parameters, locals, loop variables and captured variables; functions returning ints, closures, arrays of closures, generators yielding closures; recursion; 5-40 extra locals; callers comparing their own variables before and after a call; the Readme's two-level nesting example) and typed sessions from gen.G; " +
	"non-trivial = a function assigns a name that is also bound outside it (shadowing), or a closure is called after its definer returned; distinct by session text"

var topAssignRe = regexp.MustCompile(`^[a-z]+ = `)

// c04Isolation runs the session on the VM and checks the probes.
func c04Isolation(stmts []string) string {
	s := run.NewSession()
	prev := ""
	for i, src := range stmts {
		vr := s.Run(src, false, 3000000)
		if vr.Panic != "" {
			return fmt.Sprintf("stmt %d aborts: %s", i, firstLine(vr.Panic))
		}
		if src != gen.ScopeProbe || vr.Err != "" {
			continue
		}
		now := ref.Str(vr.Val)
		if prev != "" && now != prev && i > 0 {
			cause := stmts[i-1]
			if !topAssignRe.MatchString(cause) && !strings.HasPrefix(cause, "{") {
				return fmt.Sprintf("statement %d is not a top-level assignment but changed the globals from %s to %s:\n%s", i-1, prev, now, clipS(cause))
			}
		}
		prev = now
	}
	return ""
}

func c04Prop(rec *ev.Recorder) func(t *rapid.T) {
	return func(t *rapid.T) {
		var stmts []string
		nt := false
		src := rapid.IntRange(0, 5).Draw(t, "source")
		if src == 5 {
			// a function's own variables start out absent at every call depth, whatever finished calls left
			// in the memory its frame lands on: conditionally assigned locals, called below recursions of
			// different frame widths, after other call chains have run to about the same depth
			pad, args := "", ""
			for i := rapid.IntRange(0, 5).Draw(t, "pad"); i > 0; i-- {
				pad += ", " + letters("zp", i)
				args += ", " + fmt.Sprint(i)
			}
			n := rapid.SampledFrom([]int{70, 140, 200}).Draw(t, "depths")
			// (the leaf pushes nothing beyond its frame: what lies there is what earlier, shallower calls left)
			stmts = []string{
				"leaf = (n) -> {\nif n > 99 la = 0\nlb = 7\nif n > 99 lc = 0\nld = 8\nif n > 99 le = 0\nlf = 9\nif n == 0 return la\nif n == 1 return lc\nle\n}",
				"walk = (d, n" + pad + ") -> if d <= 0 leaf(n) else walk(d - 1, n" + pad + ")",
			}
			for k := 0; k < 3; k++ {
				stmts = append(stmts, fmt.Sprintf("{\nzr = []\nfor zd <- fromto(0, %d) zr = zr + [walk(zd, %d%s)]\nzr\n}", n, k, args))
			}
			nt = true
		} else if src == 0 {
			g := &gen.G{T: t}
			stmts = g.Session()
			nt = strings.Contains(joinStmts(stmts), "->")
		} else {
			g := &gen.ScopeGen{T: t}
			stmts = g.Session()
			nt = g.Shadowing > 0 || g.Escapes > 0
			rec.Count("shadowing_functions", g.Shadowing)
			rec.Count("escaping_closures", g.Escapes)
		}
		text := joinStmts(stmts)
		// the reference first: it bounds the run time of what the VM is given
		o := diffSession(stmts, diffOpts{})
		if o.bad() {
			fail(t, "C04", "session", map[string]any{"stmts": stmts}, "%s %s\n%s", o.kind, o.why, text)
		}
		if o.kind == "skip" {
			rec.Skip(o.why)
			rec.Case(text, false, "skipped")
			return
		}
		if why := c04Isolation(stmts); why != "" {
			fail(t, "C04", "session", map[string]any{"stmts": stmts}, "%s\n%s", why, text)
		}
		rec.Case(strings.ReplaceAll(text, stmtSep+gen.ScopeProbe, ""), nt, "outcome:"+o.kind)
	}
}

func init() {
	replayers["C04"] = func(kind string, c json.RawMessage) string {
		var v struct{ Stmts []string }
		mustJSON(c, &v)
		o := diffSession(v.Stmts, diffOpts{})
		if o.bad() {
			return fmt.Sprintf("%s %s\n%s", o.kind, o.why, joinStmts(v.Stmts))
		}
		if o.kind == "skip" {
			return ""
		}
		return c04Isolation(v.Stmts)
	}
}

func TestC04(t *testing.T) {
	if replayMode(t, "C04") {
		return
	}
	rec := ev.New("C04", c04Rule,
		"the reference resolves names with its own pass (local from the first lexical assignment on, else the immediately enclosing function's variable, else global) as the Readme describes",
		"programs that read a name lexically before its definition inside a loop are flagged by the reference and skipped (counted)")
	rec.Extra["regression_cases"] = runRegressions(t, "C04")
	defer finish(t, rec)
	rapid.Check(t, c04Prop(rec))
}
