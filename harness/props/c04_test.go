package props

import (
	"encoding/json"
	"fmt"
	"regexp"
	"strings"
	"testing"

	"pgregory.net/rapid"

	"verif/harness/ev"
	"verif/harness/gen"
	"verif/harness/ref"
	"verif/harness/run"
)

// C04 Lexical scoping and isolation: a call cannot disturb its caller.
//
// Generated: sessions over a small shared pool of variable names
// (gen.ScopeGen) so that globals, parameters, locals, loop variables and
// captured variables shadow each other; closures escape directly, inside
// arrays, through an identity function and out of generators. Oracle: the
// reference (own resolver pass) for every statement; and, on the VM alone, a
// probe of every global after each statement: a statement that is not a
// top-level assignment must leave all of them unchanged.

const c04Rule = "sessions from gen.ScopeGen (8 shared names used as globals, parameters, locals, loop variables and captured variables; functions returning ints, closures, arrays of closures, generators yielding closures; recursion; 5-40 extra locals; callers comparing their own variables before and after a call; the Readme's two-level nesting example) and typed sessions from gen.G; " +
	"non-trivial = a function assigns a name that is also bound outside it (shadowing), or a closure is called after its definer returned; distinct by session text"

var topAssignRe = regexp.MustCompile(`^[a-z]+ = `)

// c04Isolation runs the session on the VM and checks the probes.
func c04Isolation(stmts []string) string {
	s := run.NewSession()
	prev := ""
	for i, src := range stmts {
		vr := s.Run(src, false, 3000000)
		if vr.Panic != "" {
			return fmt.Sprintf("stmt %d aborts: %s", i, firstLine(vr.Panic))
		}
		if src != gen.ScopeProbe || vr.Err != "" {
			continue
		}
		now := ref.Str(vr.Val)
		if prev != "" && now != prev && i > 0 {
			cause := stmts[i-1]
			if !topAssignRe.MatchString(cause) && !strings.HasPrefix(cause, "{") {
				return fmt.Sprintf("statement %d is not a top-level assignment but changed the globals from %s to %s:\n%s", i-1, prev, now, clipS(cause))
			}
		}
		prev = now
	}
	return ""
}

func c04Prop(rec *ev.Recorder) func(t *rapid.T) {
	return func(t *rapid.T) {
		var stmts []string
		nt := false
		if rapid.IntRange(0, 4).Draw(t, "source") == 0 {
			g := &gen.G{T: t}
			stmts = g.Session()
			nt = strings.Contains(joinStmts(stmts), "->")
		} else {
			g := &gen.ScopeGen{T: t}
			stmts = g.Session()
			nt = g.Shadowing > 0 || g.Escapes > 0
			rec.Count("shadowing_functions", g.Shadowing)
			rec.Count("escaping_closures", g.Escapes)
		}
		text := joinStmts(stmts)
		// the reference first: it bounds the run time of what the VM is given
		o := diffSession(stmts, diffOpts{})
		if o.bad() {
			fail(t, "C04", "session", map[string]any{"stmts": stmts}, "%s %s\n%s", o.kind, o.why, text)
		}
		if o.kind == "skip" {
			rec.Skip(o.why)
			rec.Case(text, false, "skipped")
			return
		}
		if why := c04Isolation(stmts); why != "" {
			fail(t, "C04", "session", map[string]any{"stmts": stmts}, "%s\n%s", why, text)
		}
		rec.Case(strings.ReplaceAll(text, stmtSep+gen.ScopeProbe, ""), nt, "outcome:"+o.kind)
	}
}

func init() {
	replayers["C04"] = func(kind string, c json.RawMessage) string {
		var v struct{ Stmts []string }
		mustJSON(c, &v)
		o := diffSession(v.Stmts, diffOpts{})
		if o.bad() {
			return fmt.Sprintf("%s %s\n%s", o.kind, o.why, joinStmts(v.Stmts))
		}
		if o.kind == "skip" {
			return ""
		}
		return c04Isolation(v.Stmts)
	}
}

func TestC04(t *testing.T) {
	if replayMode(t, "C04") {
		return
	}
	rec := ev.New("C04", c04Rule,
		"the reference resolves names with its own pass (local from the first lexical assignment on, else the immediately enclosing function's variable, else global) as the Readme describes",
		"programs that read a name lexically before its definition inside a loop are flagged by the reference and skipped (counted)")
	rec.Extra["regression_cases"] = runRegressions(t, "C04")
	defer finish(t, rec)
	rapid.Check(t, c04Prop(rec))
}
