package props

import (
	"encoding/json"
	"fmt"
	"strings"
	"testing"

	"pgregory.net/rapid"

	"github.com/paulsonkoly/calc/memory"
	"github.com/paulsonkoly/calc/types/value"

	"verif/harness/ev"
)

// C18 Frames are isolated under any growth: a variable holds its last written value.
//
// Model-based test of memory.Type following the VM's calling protocol, plus
// generated programs with wide frames and deep recursion (closed-form results).

const c18Rule = "(a) operation histories on memory.Type following the VM's protocol (push, pop, call = args+PushFrame+PushClosure+return marker, ret, Set/LookUpLocal, capture, LookUpClosure, globals, Clone with and without a recycled target, switching between memories, destroying clones, Reset), frame widths from {0,1,2,5,100,127,128,129,200,300,1000}; model = plain Go slices per frame; " +
	"(b) generated programs: wide frames (100-400 locals), recursion with closed-form results, loops in wide frames after small loops; " +
	"non-trivial = (a) the history moved a stack to a new backing array at least once and either forked a context into a recycled memory or reached call depth >= 3, (b) every program; distinct by history / program text"

type mframe struct {
	locals  []int // 0 = nil
	argc    int
	scratch []int
	cap     *[]int          // model of the captured frame (shared, write-through)
	rcap    *memory.Frame   // what the implementation handed out (first capture)
	more    []*memory.Frame // what later captures of the same activation handed out
	retmark int
	closure *[]int // model of the closure frame pushed for this call
}

type mmem struct {
	parent *mmem
	forkAt int
	real   *memory.Type
	base   []int // scratch below the first frame
	frames []*mframe
	dead   bool
}

func (m *mmem) scratch() *[]int {
	if len(m.frames) == 0 {
		return &m.base
	}
	return &m.frames[len(m.frames)-1].scratch
}

func rv(i int) value.Type {
	if i == 0 {
		return value.Nil
	}
	return value.NewInt(i)
}

func iv(v value.Type) int {
	if v.IsNil() {
		return 0
	}
	i, ok := v.ToInt()
	if !ok {
		return -1
	}
	return i
}

// pushClosure calls PushClosure whether it takes the frame or a pointer to it.
func pushClosure(m *memory.Type, f memory.Frame) {
	switch pc := any(m).(type) {
	case interface{ PushClosure(memory.Frame) }:
		pc.PushClosure(f)
	case interface{ PushClosure(*memory.Frame) }:
		pc.PushClosure(&f)
	default:
		panic("c18: unknown PushClosure signature")
	}
}

// capture asks the memory for the frame a closure holds on to: Capture() where
// it exists, the live Top() slice otherwise (trees before the closure repair).
func capture(m *memory.Type) *memory.Frame {
	if c, ok := any(m).(interface{ Capture() *memory.Frame }); ok {
		return c.Capture()
	}
	f := m.Top()
	return &f
}

var c18Widths = []int{0, 1, 2, 5, 100, 127, 128, 129, 200, 300, 1000}

type memOp struct {
	Op string `json:"op"`
	A  int    `json:"a,omitempty"`
	B  int    `json:"b,omitempty"`
}

// memMachine interprets an operation list on the implementation and the model
// at once; every operation carries its own arguments so a recorded list
// replays without the generator.
type memMachine struct {
	m0      *mmem
	mems    []*mmem
	free    []*mmem
	cur     *mmem
	capts   []*mframe
	globals map[string]int
	counter int
	log     []string
	// statistics
	maxDepth, clones, reuses int
}

func newMemMachine() *memMachine {
	m0 := &mmem{real: memory.New()}
	return &memMachine{m0: m0, mems: []*mmem{m0}, cur: m0, globals: map[string]int{}}
}

func (mm *memMachine) nv() int { mm.counter++; return mm.counter }

func (mm *memMachine) alive() []*mmem {
	res := []*mmem{}
	for _, m := range mm.mems {
		if !m.dead {
			res = append(res, m)
		}
	}
	return res
}

func (mm *memMachine) kill(m *mmem) {
	m.dead = true
	mm.free = append(mm.free, m)
	for _, c := range mm.mems {
		if !c.dead && c.parent == m {
			mm.kill(c)
		}
	}
}

// apply performs op; it returns "" or a description of the disagreement. ok is
// false when the operation is not enabled in the current state (skipped).
func (mm *memMachine) apply(op memOp) (why string, ok bool) {
	cur := mm.cur
	defer func() {
		if x := recover(); x != nil {
			why, ok = fmt.Sprintf("%s panics: %v", op.Op, x), true
		}
	}()
	switch op.Op {
	case "push":
		v := mm.nv()
		cur.real.Push(rv(v))
		*cur.scratch() = append(*cur.scratch(), v)
	case "pop":
		sc := cur.scratch()
		if len(*sc) == 0 {
			return "", false
		}
		want := (*sc)[len(*sc)-1]
		*sc = (*sc)[:len(*sc)-1]
		if got := iv(cur.real.Pop()); got != want {
			return fmt.Sprintf("pop returns %d, last pushed %d", got, want), true
		}
	case "call": // A = argc wanted, B = extra locals
		sc := cur.scratch()
		argc := op.A
		if argc > len(*sc) {
			argc = len(*sc)
		}
		localCnt := argc + op.B
		f := &mframe{argc: argc, locals: make([]int, localCnt)}
		copy(f.locals, (*sc)[len(*sc)-argc:])
		*sc = (*sc)[:len(*sc)-argc]
		cur.real.PushFrame(argc, localCnt)
		var cm *[]int
		var cr memory.Frame
		if len(mm.capts) > 0 && op.B%2 == 0 {
			c := mm.capts[(op.A+op.B)%len(mm.capts)]
			cm, cr = c.cap, *c.rcap
		} else {
			e := []int{}
			cm = &e
		}
		pushClosure(cur.real, cr)
		f.closure = cm
		f.retmark = mm.nv()
		cur.real.Push(rv(f.retmark))
		cur.frames = append(cur.frames, f)
		if len(cur.frames) > mm.maxDepth {
			mm.maxDepth = len(cur.frames)
		}
	case "ret":
		if len(cur.frames) == 0 {
			return "", false
		}
		// a forked context never returns from the frame it was forked in, and a
		// frame with live iterator contexts is not left before they are destroyed
		if cur != mm.m0 && len(cur.frames) == 1 {
			return "", false
		}
		for _, m := range mm.mems {
			if !m.dead && m.parent == cur && m.forkAt == len(cur.frames) {
				return "", false
			}
		}
		f := cur.frames[len(cur.frames)-1]
		ip := cur.real.IP()
		if ip == nil || iv(*ip) != f.retmark {
			return "return marker of the current frame changed", true
		}
		cur.real.PopFrame()
		cur.real.PopClosure()
		cur.frames = cur.frames[:len(cur.frames)-1]
		v := mm.nv()
		cur.real.Push(rv(v))
		*cur.scratch() = append(*cur.scratch(), v)
	case "set": // A selects the slot
		if len(cur.frames) == 0 {
			return "", false
		}
		f := cur.frames[len(cur.frames)-1]
		if len(f.locals) == 0 {
			return "", false
		}
		i := op.A % len(f.locals)
		if op.B == 1 {
			i = len(f.locals) - 1
		}
		v := mm.nv()
		f.locals[i] = v
		if f.cap != nil {
			(*f.cap)[i] = v
		}
		cur.real.Set(i, rv(v))
	case "capture":
		if len(cur.frames) == 0 {
			return "", false
		}
		f := cur.frames[len(cur.frames)-1]
		if f.cap == nil {
			c := append([]int{}, f.locals...)
			f.cap = &c
			f.rcap = capture(cur.real)
			mm.capts = append(mm.capts, f)
		} else if len(f.more) < 3 {
			// another closure created in the same activation: it shares the variables too
			f.more = append(f.more, capture(cur.real))
		}
	case "global": // A = name, B: 0 set / 1 get
		name := string(rune('a' + op.A%4))
		if op.B == 0 {
			v := mm.nv()
			mm.globals[name] = v
			cur.real.SetGlobal(name, rv(v))
		} else if got := iv(cur.real.LookUpGlobal(name)); got != mm.globals[name] {
			return fmt.Sprintf("global %s reads %d, last written %d", name, got, mm.globals[name]), true
		}
	case "clone": // A: 1 = into a recycled memory if there is one
		var reuse *memory.Type
		if len(mm.free) > 0 && op.A == 1 {
			reuse = mm.free[len(mm.free)-1].real
			mm.free = mm.free[:len(mm.free)-1]
			mm.reuses++
		}
		mm.clones++
		nm := &mmem{real: cur.real.Clone(reuse), parent: cur, forkAt: len(cur.frames)}
		if len(cur.frames) > 0 {
			f := cur.frames[len(cur.frames)-1]
			nf := &mframe{argc: f.argc, locals: append([]int{}, f.locals...), scratch: append([]int{}, f.scratch...), retmark: f.retmark, closure: f.closure}
			nm.frames = []*mframe{nf}
		}
		mm.mems = append(mm.mems, nm)
		mm.cur = nm
	case "switch":
		al := mm.alive()
		mm.cur = al[op.A%len(al)]
	case "destroy":
		if cur == mm.m0 {
			return "", false
		}
		mm.kill(cur)
		mm.cur = mm.m0
	case "reset":
		// a runtime error: the main memory is reset, all contexts are dropped
		for _, m := range mm.mems {
			if m != mm.m0 && !m.dead {
				m.dead = true // not recycled: the VM forgets them
			}
		}
		mm.m0.real.Reset()
		mm.m0.frames, mm.m0.base = nil, nil
		mm.cur = mm.m0
	default:
		panic("unknown op " + op.Op)
	}
	return mm.invariant(op), true
}

// invariant compares reads on the current memory with the model.
func (mm *memMachine) invariant(op memOp) string {
	cur := mm.cur
	if cur.real.CallDepth() != len(cur.frames) {
		return fmt.Sprintf("call depth %d, model %d", cur.real.CallDepth(), len(cur.frames))
	}
	if len(cur.frames) == 0 {
		return ""
	}
	f := cur.frames[len(cur.frames)-1]
	n := len(f.locals)
	for k := 0; k < 4 && n > 0; k++ {
		i := (op.A*7 + op.B*3 + k*k*31) % n
		switch k {
		case 0:
			i = n - 1
		case 1:
			i = 0
		}
		if got := iv(cur.real.LookUpLocal(i)); got != f.locals[i] {
			return fmt.Sprintf("local %d of %d reads %d, last written %d", i, n, got, f.locals[i])
		}
	}
	if nc := len(*f.closure); nc > 0 {
		for k := 0; k < 3; k++ {
			i := (op.A + k*17) % nc
			if k == 0 {
				i = nc - 1
			}
			if got := iv(cur.real.LookUpClosure(i)); got != (*f.closure)[i] {
				return fmt.Sprintf("captured variable %d of %d reads %d, last written %d", i, nc, got, (*f.closure)[i])
			}
		}
	}
	if top := cur.real.Top(); len(top) != n {
		return fmt.Sprintf("top frame has %d slots, model %d", len(top), n)
	}
	if ip := cur.real.IP(); ip == nil || iv(*ip) != f.retmark {
		return "return marker of the current frame changed"
	}
	// every frame a closure captured keeps its values
	for k, c := range mm.capts {
		if k > 6 {
			break
		}
		c = mm.capts[(op.A+k)%len(mm.capts)]
		if len(*c.cap) > 0 {
			i := (op.B + k) % len(*c.cap)
			if got := iv((*c.rcap)[i]); got != (*c.cap)[i] {
				return fmt.Sprintf("frame captured by a closure: variable %d reads %d, last written %d", i, got, (*c.cap)[i])
			}
			for n, extra := range c.more {
				if got := iv((*extra)[i]); got != (*c.cap)[i] {
					return fmt.Sprintf("frame captured by closure number %d of one activation: variable %d reads %d, last written %d", n+2, i, got, (*c.cap)[i])
				}
			}
		}
	}
	return ""
}

func genMemOp(t *rapid.T) memOp {
	// weights: calls outnumber returns so depth builds up
	kind := rapid.SampledFrom([]string{
		"push", "push", "push", "pop", "call", "call", "call", "ret", "set", "set", "set", "capture",
		"global", "clone", "clone", "switch", "destroy", "reset",
	}).Draw(t, "op")
	op := memOp{Op: kind}
	switch kind {
	case "call":
		op.A = rapid.IntRange(0, 3).Draw(t, "argc")
		op.B = rapid.SampledFrom(c18Widths).Draw(t, "width")
	case "set":
		op.A = rapid.IntRange(0, 1100).Draw(t, "slot")
		op.B = rapid.IntRange(0, 2).Draw(t, "last")
	case "global":
		op.A = rapid.IntRange(0, 3).Draw(t, "name")
		op.B = rapid.IntRange(0, 1).Draw(t, "get")
	case "clone":
		op.A = rapid.IntRange(0, 1).Draw(t, "reuse")
	case "switch":
		op.A = rapid.IntRange(0, 50).Draw(t, "which")
	case "reset":
		// rare
		if rapid.IntRange(0, 9).Draw(t, "really") != 0 {
			op = memOp{Op: "push"}
		}
	}
	return op
}

func runMemOps(ops []memOp) (why string, mm *memMachine, applied []memOp) {
	mm = newMemMachine()
	for _, op := range ops {
		w, ok := mm.apply(op)
		if !ok {
			continue
		}
		applied = append(applied, op)
		if w != "" {
			return w, mm, applied
		}
	}
	return "", mm, applied
}

func opsText(ops []memOp) string {
	var sb strings.Builder
	for _, o := range ops {
		fmt.Fprintf(&sb, "%s(%d,%d) ", o.Op, o.A, o.B)
	}
	return sb.String()
}

func c18MemProp(rec *ev.Recorder) func(t *rapid.T) {
	return func(t *rapid.T) {
		n := rapid.IntRange(10, 250*tierScale()).Draw(t, "steps")
		ops := make([]memOp, 0, n)
		for i := 0; i < n; i++ {
			ops = append(ops, genMemOp(t))
			if rapid.IntRange(0, 99).Draw(t, "burst") == 0 {
				// build up call depth quickly
				k := rapid.IntRange(50, 400).Draw(t, "burstlen")
				w := rapid.SampledFrom([]int{0, 1, 2, 5}).Draw(t, "burstwidth")
				for j := 0; j < k; j++ {
					ops = append(ops, memOp{Op: "call", A: j % 3, B: w})
				}
			}
		}
		moves := memory.VerifMoves
		why, mm, applied := runMemOps(ops)
		if why != "" {
			fail(t, "C18", "memops", applied, "after %d operations: %s\n%s", len(applied), why, opsText(applied))
		}
		moved := memory.VerifMoves - moves
		rec.Count("ops", len(applied))
		rec.Count("clones", mm.clones)
		rec.Count("clones_into_recycled", mm.reuses)
		rec.Count("stack_moves", moved)
		if mm.maxDepth > recMax(rec, "max_call_depth") {
			rec.Extra["max_call_depth"] = mm.maxDepth
		}
		rec.Case("M|"+opsText(applied), moved > 0 && (mm.reuses > 0 || mm.maxDepth >= 3), "memory-model")
	}
}

func recMax(rec *ev.Recorder, key string) int {
	if v, ok := rec.Extra[key].(int); ok {
		return v
	}
	return 0
}

func init() {
	replayers["C18"] = func(kind string, c json.RawMessage) string {
		switch kind {
		case "memops":
			var ops []memOp
			mustJSON(c, &ops)
			why, _, applied := runMemOps(ops)
			if why != "" {
				return fmt.Sprintf("after %d operations: %s", len(applied), why)
			}
		case "session":
			var v struct{ Stmts []string }
			mustJSON(c, &v)
			if o := diffSession(v.Stmts, diffOpts{}); o.bad() {
				return fmt.Sprintf("%s %s\n%s", o.kind, o.why, joinStmts(v.Stmts))
			}
		}
		return ""
	}
}

func TestC18(t *testing.T) {
	if replayMode(t, "C18") {
		return
	}
	rec := ev.New("C18", c18Rule,
		"the operation protocol (what the VM does around CALL/RET/CCONT/DCONT) was read off vm.go; histories outside it are not generated",
		"recursion depth is exercised up to the stated bound, not to memory exhaustion")
	rec.Extra["regression_cases"] = runRegressions(t, "C18")
	defer finish(t, rec)
	mp, pp := c18MemProp(rec), c18ProgProp(rec)
	rapid.Check(t, func(t *rapid.T) {
		if rapid.IntRange(0, 9).Draw(t, "which") < 8 {
			mp(t)
		} else {
			pp(t)
		}
	})
}
