package props

import (
	"encoding/json"
	"fmt"
	"os"
	"regexp"
	"strings"
	"testing"

	"pgregory.net/rapid"

	"github.com/paulsonkoly/calc/lexer"
	"github.com/paulsonkoly/calc/types/token"

	"verif/harness/ev"
)

// C14 Tokenisation is faithful to the text.
//
// (a) lexeme lists rendered with random gaps/comments: the lexer returns
//     exactly those lexemes, whatever the layout (two layouts per list);
// (b) arbitrary strings over the alphabet: accepted exactly when an independent
//     regular-expression tokenizer accepts, same kinds/texts/spans, plus the
//     structural invariants of the property.

const c14Rule = "(a) lists of 0-12 lexemes (ints, floats, strings with escapes / line breaks / multi-byte characters, names, operator runs, brackets, line breaks) rendered in two layouts (blanks, tabs, comments); " +
	"(b) strings assembled from lexemes, partial lexemes and foreign characters without forced gaps (adjacency cases); " +
	"non-trivial = the accepted input holds >= 3 tokens and at least one of: a string literal, a comment, two adjacent tokens without a gap, a line break; distinct by input text"

type lexeme struct {
	text string
	kind token.Kind
}

func genLexeme(t *rapid.T) lexeme {
	switch rapid.IntRange(0, 7).Draw(t, "lexeme") {
	case 0:
		return lexeme{rapid.StringMatching(`[0-9]{1,20}`).Draw(t, "int"), token.IntLit}
	case 1:
		return lexeme{rapid.StringMatching(`[0-9]{1,4}\.[0-9]{0,4}`).Draw(t, "float"), token.FloatLit}
	case 2:
		parts := []string{"a", "b", "\\\"", "\\n", "\\\\", " ", "{", ";", "é", "\n", "[", "x", "\\t", "\xff"}
		s := "\""
		for i := rapid.IntRange(0, 6).Draw(t, "slen"); i > 0; i-- {
			s += rapid.SampledFrom(parts).Draw(t, "spart")
		}
		return lexeme{s + "\"", token.StringLit}
	case 3, 4:
		return lexeme{rapid.StringMatching(`[a-z]{1,6}`).Draw(t, "name"), token.Name}
	case 5:
		return lexeme{rapid.StringMatching(`[+*/=<>!&|#%~-]{1,3}`).Draw(t, "sticky"), token.Sticky}
	case 6:
		return lexeme{rapid.SampledFrom([]string{"(", ")", "{", "}", "[", "]", ",", ":"}).Draw(t, "ns"), token.NotSticky}
	default:
		return lexeme{"\n", token.EOL}
	}
}

func genGap(t *rapid.T, force bool) string {
	n := rapid.IntRange(0, 2).Draw(t, "gap")
	if force && n == 0 {
		n = 1
	}
	s := ""
	for i := 0; i < n; i++ {
		if rapid.IntRange(0, 3).Draw(t, "tab") == 0 {
			s += "\t"
		} else {
			s += " "
		}
	}
	return s
}

// needGap: two adjacent lexemes would merge or change kind without a blank
func needGap(a, b lexeme) bool {
	word := func(k token.Kind) bool { return k == token.IntLit || k == token.FloatLit || k == token.Name }
	if a.kind == token.Sticky && b.kind == token.Sticky {
		return true
	}
	if word(a.kind) && word(b.kind) {
		// 12ab and ab12 are two tokens each; digits after digits or letters after letters merge
		if (a.kind == token.IntLit || a.kind == token.FloatLit) && b.kind == token.Name {
			return false
		}
		if a.kind == token.Name && (b.kind == token.IntLit || b.kind == token.FloatLit) {
			return false
		}
		return true
	}
	return false
}

func renderLexemes(t *rapid.T, ls []lexeme, comments bool) (src string, adjacent bool) {
	var sb strings.Builder
	sb.WriteString(genGap(t, false))
	for i, l := range ls {
		sb.WriteString(l.text)
		if i+1 < len(ls) {
			g := genGap(t, needGap(l, ls[i+1]))
			if g == "" {
				adjacent = true
			}
			sb.WriteString(g)
			if comments && ls[i+1].kind == token.EOL && rapid.IntRange(0, 2).Draw(t, "cmt") == 0 {
				sb.WriteString("; comment \" { 12 ab é")
			}
		}
	}
	sb.WriteString(genGap(t, false))
	if comments && rapid.IntRange(0, 2).Draw(t, "tcmt") == 0 {
		sb.WriteString(" ; trailing \"")
	}
	return sb.String(), adjacent
}

type tokrec struct {
	kind     token.Kind
	text     string
	from, to int
}

func lexAll(src string) (res []tokrec, err error) {
	if !watchdog(hangLimit, func() { res, err = lexAllUnguarded(src) }) {
		// a hanging front end is property C06's business; here it only means
		// that nothing can be said about tokenisation
		fmt.Printf("INCONCLUSIVE: the lexer does not terminate on %q (see C06)\n", src)
		os.Exit(2)
	}
	return
}

func lexAllUnguarded(src string) ([]tokrec, error) {
	l := lexer.NewLexer(src)
	res := []tokrec{}
	n := 0
	for l.Next() {
		n++
		if n > 4*len(src)+8 {
			return nil, fmt.Errorf("INTERNAL: lexer does not stop")
		}
		if l.Err != nil {
			return nil, l.Err
		}
		res = append(res, tokrec{l.Token.Type, l.Token.Value, l.Token.From(), l.Token.To()})
	}
	return res, l.Err
}

var gapRe = regexp.MustCompile(`^[ \t]*(;[^\n]*)?$`)

const stickySet = "+*/=<>!-&|#%~"

// lexInvariants checks the structural part of the property on an accepted
// input and returns the real (non-synthetic) tokens.
func lexInvariants(src string, toks []tokrec) ([]tokrec, string) {
	if len(toks) < 2 || toks[len(toks)-1].kind != token.EOF || toks[len(toks)-2].kind != token.EOL {
		return nil, "the stream does not end with end-of-line then end-of-file"
	}
	for _, tk := range toks[:len(toks)-1] {
		if tk.kind == token.EOF {
			return nil, "end-of-file token in the middle of the stream"
		}
	}
	body := toks[:len(toks)-1]
	// the final EOL is synthetic unless the input's last token is a line break
	last := body[len(body)-1]
	if !(last.to > last.from && last.to <= len(src) && src[last.from:last.to] == "\n" && gapRe.MatchString(src[last.to:])) {
		body = body[:len(body)-1]
	}
	pos := 0
	breaks := 0
	for i, tk := range body {
		if tk.from < pos || tk.to <= tk.from || tk.to > len(src) {
			return nil, fmt.Sprintf("token %d %q: span [%d,%d] after position %d in %d bytes", i, tk.text, tk.from, tk.to, pos, len(src))
		}
		span := src[tk.from:tk.to]
		want := span
		if tk.kind == token.StringLit {
			want = strings.ReplaceAll(span, "\\n", "\n") // the documented escape, pinned by the suite
		}
		if tk.text != want {
			return nil, fmt.Sprintf("token %d text %q, input between its bounds %q", i, tk.text, span)
		}
		if !gapRe.MatchString(src[pos:tk.from]) {
			return nil, fmt.Sprintf("between tokens %d and %d: %q is not blanks/comment", i-1, i, src[pos:tk.from])
		}
		if tk.kind == token.Sticky {
			if tk.from > 0 && strings.ContainsRune(stickySet, rune(src[tk.from-1])) || tk.to < len(src) && strings.ContainsRune(stickySet, rune(src[tk.to])) {
				return nil, fmt.Sprintf("operator token %d %q is not a maximal run", i, tk.text)
			}
		}
		if tk.kind == token.EOL {
			if span != "\n" {
				return nil, fmt.Sprintf("end-of-line token %d spans %q", i, span)
			}
			breaks++
		}
		pos = tk.to
	}
	if !gapRe.MatchString(src[pos:]) {
		return nil, fmt.Sprintf("after the last token: %q is not blanks/comment", src[pos:])
	}
	// one end-of-line token per line break outside string literals
	outside := 0
	p := 0
	for _, tk := range body {
		outside += strings.Count(src[p:tk.from], "\n")
		if tk.kind != token.StringLit {
			outside += strings.Count(src[tk.from:tk.to], "\n")
		}
		p = tk.to
	}
	outside += strings.Count(src[p:], "\n")
	if breaks != outside {
		return nil, fmt.Sprintf("%d end-of-line tokens for %d line breaks", breaks, outside)
	}
	return body, ""
}

// independent tokenizer: ordered alternatives tried at each position
var refTokRes = []struct {
	kind token.Kind
	re   *regexp.Regexp
}{
	{token.Invalid, regexp.MustCompile(`^[ \t]+`)},
	{token.Invalid, regexp.MustCompile(`^;[^\n]*`)},
	{token.EOL, regexp.MustCompile(`^\n`)},
	{token.FloatLit, regexp.MustCompile(`^[0-9]+\.[0-9]*`)},
	{token.IntLit, regexp.MustCompile(`^[0-9]+`)},
	{token.Name, regexp.MustCompile(`^[a-z]+`)},
	{token.StringLit, regexp.MustCompile(`(?s)^"([^"\\]|\\.)*"`)},
	{token.Sticky, regexp.MustCompile(`^[+*/=<>!&|#%~-]+`)},
	{token.NotSticky, regexp.MustCompile(`^[(){}\[\],:]`)},
}

func refTokenize(src string) ([]tokrec, bool) {
	res := []tokrec{}
	pos := 0
outer:
	for pos < len(src) {
		for _, alt := range refTokRes {
			if m := alt.re.FindString(src[pos:]); m != "" {
				if alt.kind != token.Invalid {
					res = append(res, tokrec{alt.kind, m, pos, pos + len(m)})
				}
				pos += len(m)
				continue outer
			}
		}
		return nil, false
	}
	return res, true
}

func lexAgainstRef(src string) string {
	toks, err := lexAll(src)
	if err != nil && strings.HasPrefix(err.Error(), "INTERNAL") {
		return err.Error()
	}
	want, ok := refTokenize(src)
	if (err == nil) != ok {
		return fmt.Sprintf("lexer error %v, the reference tokenizer accepts=%v", err, ok)
	}
	if err != nil {
		return ""
	}
	body, why := lexInvariants(src, toks)
	if why != "" {
		return why
	}
	if len(body) != len(want) {
		return fmt.Sprintf("%d tokens, the reference tokenizer gives %d", len(body), len(want))
	}
	for i := range body {
		if body[i].kind != want[i].kind || body[i].from != want[i].from || body[i].to != want[i].to {
			return fmt.Sprintf("token %d is %v [%d,%d], reference %v [%d,%d]", i, body[i].kind, body[i].from, body[i].to, want[i].kind, want[i].from, want[i].to)
		}
	}
	return ""
}

func lexAgainstLexemes(src string, want []lexeme) string {
	toks, err := lexAll(src)
	if err != nil {
		return "lexer error " + err.Error()
	}
	body, why := lexInvariants(src, toks)
	if why != "" {
		return why
	}
	if len(body) != len(want) {
		return fmt.Sprintf("%d tokens for %d lexemes", len(body), len(want))
	}
	for i, tk := range body {
		if tk.kind != want[i].kind {
			return fmt.Sprintf("token %d kind %v, lexeme %v %q", i, tk.kind, want[i].kind, want[i].text)
		}
		if src[tk.from:tk.to] != want[i].text {
			return fmt.Sprintf("token %d spans %q, lexeme %q", i, src[tk.from:tk.to], want[i].text)
		}
	}
	return ""
}

var soupPieces = []string{"a", "if", "12", "3.5", "1.", ".5", "+", "<-", "==", "(", "]", ",", ":", "\"s\"", "\"a\\\"b\"", "\"", "\\", " ", "\t", "\n", ";", "; c\n", "$", "A", "é", "\x00", "\xff", "_", "'", "@", ".", "\x7f", "\u0080", "\u0081", "\u00a0", "\u00aa", "\u0100", "\u2028", "\ufeff", "\ufffd", "\U00010000", "\U0010ffff", "\xc2", "\xed\xa0\x80", "\x80", "~", "&~", "=~", "~~"}

func c14Prop(rec *ev.Recorder) func(t *rapid.T) {
	return func(t *rapid.T) {
		if rapid.IntRange(0, 2).Draw(t, "which") < 2 {
			n := rapid.IntRange(0, 12).Draw(t, "n")
			ls := []lexeme{}
			for j := 0; j < n; j++ {
				ls = append(ls, genLexeme(t))
			}
			for layout := 0; layout < 2; layout++ {
				src, adjacent := renderLexemes(t, ls, layout == 1)
				if why := lexAgainstLexemes(src, ls); why != "" {
					fail(t, "C14", "lexemes", map[string]any{"src": src, "lexemes": lexTexts(ls)}, "%s\n  input %q", why, src)
				}
				if why := lexAgainstRef(src); why != "" {
					fail(t, "C14", "text", map[string]any{"src": src}, "%s\n  input %q", why, src)
				}
				nt := n >= 3 && (adjacent || layout == 1 || hasKind(ls, token.StringLit) || hasKind(ls, token.EOL))
				rec.Case(src, nt, "rendered-lexemes")
			}
			return
		}
		n := rapid.IntRange(0, 14).Draw(t, "n")
		var sb strings.Builder
		for j := 0; j < n; j++ {
			if rapid.IntRange(0, 3).Draw(t, "soup") == 0 {
				sb.WriteString(rapid.SampledFrom(soupPieces).Draw(t, "piece"))
			} else {
				sb.WriteString(genLexeme(t).text)
			}
		}
		src := sb.String()
		if why := lexAgainstRef(src); why != "" {
			fail(t, "C14", "text", map[string]any{"src": src}, "%s\n  input %q", why, src)
		}
		toks, ok := refTokenize(src)
		rec.Case(src, ok && len(toks) >= 3, "adjacency-text", fmt.Sprintf("accepted:%v", ok))
	}
}

func hasKind(ls []lexeme, k token.Kind) bool {
	for _, l := range ls {
		if l.kind == k {
			return true
		}
	}
	return false
}

func lexTexts(ls []lexeme) []string {
	r := []string{}
	for _, l := range ls {
		r = append(r, l.text)
	}
	return r
}

func init() {
	replayers["C14"] = func(kind string, c json.RawMessage) string {
		var v struct {
			Src     string
			Lexemes []string
		}
		mustJSON(c, &v)
		if why := lexAgainstRef(v.Src); why != "" {
			return fmt.Sprintf("%s\n  input %q", why, v.Src)
		}
		if kind == "lexemes" {
			// kinds are recomputed from the lexeme texts by the reference tokenizer
			ls := []lexeme{}
			for _, tx := range v.Lexemes {
				toks, ok := refTokenize(tx)
				if !ok || len(toks) != 1 {
					return "bad lexeme in replay: " + tx
				}
				ls = append(ls, lexeme{tx, toks[0].kind})
			}
			if why := lexAgainstLexemes(v.Src, ls); why != "" {
				return fmt.Sprintf("%s\n  input %q", why, v.Src)
			}
		}
		return ""
	}
}

func TestC14(t *testing.T) {
	if replayMode(t, "C14") {
		return
	}
	rec := ev.New("C14", c14Rule,
		"string literal token text is compared after the lexer's documented \\n substitution (pinned by lexer_test.go)",
		"the regular-expression tokenizer in this file is the specification of the token grammar (Readme 'Tokens' plus the operator/bracket sets of lexer/states.go)")
	rec.Extra["regression_cases"] = runRegressions(t, "C14")
	defer finish(t, rec)
	rapid.Check(t, c14Prop(rec))
}

// FuzzC14 is the coverage-guided leg (thorough tier only).
func FuzzC14(f *testing.F) {
	for _, s := range []string{"13.6+a-(3 / 9)\n", "a=2+3", "\"a\\\"bc\" ; c\n[1,\n2]", "1.", "12ab<-x"} {
		f.Add(s)
	}
	f.Fuzz(func(t *testing.T, src string) {
		if len(src) > 4096 {
			return
		}
		if why := lexAgainstRef(src); why != "" {
			ev.Repro("C14", "text", map[string]any{"src": src})
			t.Fatalf("%s\n  input %q", why, src)
		}
	})
}
