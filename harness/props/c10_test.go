package props

import (
	"encoding/json"
	"fmt"
	"strings"
	"testing"

	"pgregory.net/rapid"

	"github.com/paulsonkoly/calc/types/bytecode"
	"github.com/paulsonkoly/calc/types/value"

	"verif/harness/ev"
	"verif/harness/ref"
	"verif/harness/run"
)

// C10 Values are immutable: operations never alter operands or program constants.

const c10Rule = "(a) sessions over a pool of 3-8 array/string variables: literals (constant and computed elements, inside loops and recursive functions), concatenation, slicing (slices of slices, empty and full ranges), nesting, calls returning slices/concatenations, iteration, arrays captured by closures and generators; after every statement all variables are probed and must render as before (except the assigned one) and as in the reference; " +
	"(b) value API: Arith(ADD) / Index / array building on a pool of array and string value.Type (literal lengths aimed at 4/8/16/32) against renderings taken at creation; " +
	"non-trivial = (a) the session holds a concatenation whose left operand is a proper slice of a live value, or a literal evaluated >= 2 times, (b) a concatenation onto a slice; distinct by session / operation text"

const c10Prelude = "sl = (a, i, j) -> a[i:j]\n----\n" +
	"cat = (a, b) -> a + b\n----\n" +
	"twice = (a) -> a + a\n----\n" +
	"lit = () -> [1, 2, 3]\n----\n" +
	"konst = () -> \"hello\"\n----\n" +
	"idv = (a) -> a\n----\n" +
	"nothing = () -> if false 1\n----\n" +
	"litc = (k) -> [1, k, 3]\n----\n" +
	"litd = (k) -> [1, 2, 3, k, [5, 6, k]]\n----\n" +
	"lits = (n) -> if n <= 0 {\n[]\n} else [[n, 0]] + lits(n - 1)\n----\n" +
	"mkc = (a) -> () -> a\n----\n" +
	"gen = (a) -> {\nyield a\nyield a + [9]\nyield a\n}\n----\n" +
	"first = (a) -> {\nb = a[0:1]\nc = b + [7]\nb\n}"

type c10Var struct {
	name string
	str  bool
	isFn bool
}

// c10Session generates the statements of one session; the reference runs along
// to know the current lengths.
func c10Session(t *rapid.T) (stmts []string, probes []string, nontrivial bool) {
	rf := ref.New()
	for _, p := range strings.Split(c10Prelude, "\n----\n") {
		stmts = append(stmts, p)
		rf.RunStmt(p)
	}
	vars := []c10Var{}
	nvars := rapid.IntRange(3, 8).Draw(t, "nvars")
	fresh := 0
	newName := func() string { fresh++; return letters("v", fresh) }
	lenOf := func(name string) int {
		switch x := rf.Global(name).(type) {
		case string:
			return len(x)
		case ref.Arr:
			return len(x)
		}
		return 0
	}
	emit := func(s string) {
		stmts = append(stmts, s)
		rf.RunStmt(s)
	}
	pick := func(str bool) (c10Var, bool) {
		cands := []c10Var{}
		for _, v := range vars {
			if v.str == str && !v.isFn {
				cands = append(cands, v)
			}
		}
		if len(cands) == 0 {
			return c10Var{}, false
		}
		return cands[rapid.IntRange(0, len(cands)-1).Draw(t, "var")], true
	}
	// operand: a variable, a slice of one, a literal or a call
	operand := func(str bool) string {
		v, ok := pick(str)
		if !ok || rapid.IntRange(0, 5).Draw(t, "lit") == 0 {
			if str {
				return rapid.SampledFrom([]string{`"ab"`, `""`, `"xyz"`, `"q"`, `"item-nr"`, `"0123456789abcde"`, `"a-seventeen-bytes"`, `"the quick brown fox jumps over it"`}).Draw(t, "slit")
			}
			return rapid.SampledFrom([]string{"[1, 2, 3]", "[]", "[4]", "[[5], 6]", "lit()", "[1, 2, 3, 4, 5, 6, 7]", "[0, 1, 2, 3, 4, 5, 6, 7, 8, 9, 10, 11, 12, 13, 14, 15, 16]", "[1, nothing(), 3]", "[nothing()]", "[7, 8, nothing()]"}).Draw(t, "alit")
		}
		n := lenOf(v.name)
		switch rapid.IntRange(0, 5).Draw(t, "form") {
		case 4:
			// a slice taken directly from a call result: the callee returned a value that others hold too
			i := rapid.IntRange(0, n).Draw(t, "i")
			j := rapid.IntRange(i, n).Draw(t, "j")
			if j-i < n {
				nontrivial = true
			}
			return fmt.Sprintf("idv(%s)[%d:%d]", v.name, i, j)
		case 5:
			if str {
				i := rapid.IntRange(0, 5).Draw(t, "i")
				return fmt.Sprintf("konst()[%d:%d]", i, rapid.IntRange(i, 5).Draw(t, "j"))
			}
			i := rapid.IntRange(0, 3).Draw(t, "i")
			return fmt.Sprintf("lit()[%d:%d]", i, rapid.IntRange(i, 3).Draw(t, "j"))
		case 0:
			i := rapid.IntRange(0, n).Draw(t, "i")
			j := rapid.IntRange(i, n).Draw(t, "j")
			if j < n {
				nontrivial = true // a proper slice: its backing array has spare capacity
			}
			return fmt.Sprintf("%s[%d:%d]", v.name, i, j)
		case 1:
			i := rapid.IntRange(0, n).Draw(t, "i")
			j := rapid.IntRange(i, n).Draw(t, "j")
			return fmt.Sprintf("sl(%s, %d, %d)", v.name, i, j)
		default:
			return v.name
		}
	}
	steps := rapid.IntRange(4, 14).Draw(t, "steps")
	for s := 0; s < steps; s++ {
		var target c10Var
		if len(vars) < nvars && (len(vars) < 2 || rapid.Bool().Draw(t, "new")) {
			target = c10Var{name: newName(), str: rapid.IntRange(0, 3).Draw(t, "str") == 0}
		} else {
			target = vars[rapid.IntRange(0, len(vars)-1).Draw(t, "target")]
			if target.isFn {
				target = c10Var{name: newName(), str: false}
			}
		}
		isNew := true
		for _, v := range vars {
			if v.name == target.name {
				isNew = false
			}
		}
		x := target.name
		str := target.str
		switch op := rapid.IntRange(0, 9).Draw(t, "op"); {
		case op <= 1:
			if rapid.Bool().Draw(t, "chain") {
				// a chain of three or four terms, often with an empty one early on
				empty := "[]"
				if str {
					empty = `""`
				}
				terms := []string{}
				for n := rapid.IntRange(3, 4).Draw(t, "terms"); n > 0; n-- {
					if rapid.IntRange(0, 2).Draw(t, "empty") == 0 {
						terms = append(terms, empty)
					} else {
						terms = append(terms, operand(str))
					}
				}
				emit(fmt.Sprintf("%s = %s", x, strings.Join(terms, " + ")))
				break
			}
			emit(fmt.Sprintf("%s = %s + %s", x, operand(str), operand(str)))
		case op == 2 && !isNew && !str && rapid.Bool().Draw(t, "accumulate"):
			// the accumulate pattern on a variable that may share storage with others
			emit(fmt.Sprintf("%s = %s + [%s]", x, x, rapid.SampledFrom([]string{"50", "nothing()", "[9]", "\"s\""}).Draw(t, "elem")))
		case op == 2:
			emit(fmt.Sprintf("%s = cat(%s, %s)", x, operand(str), operand(str)))
		case op == 3:
			emit(fmt.Sprintf("%s = %s", x, operand(str)))
		case op == 4 && !str:
			emit(fmt.Sprintf("%s = [%s, %s]", x, operand(false), operand(rapid.Bool().Draw(t, "s2"))))
		case op == 5 && !str:
			// a literal with computed elements evaluated several times
			k := rapid.IntRange(2, 4).Draw(t, "k")
			emit(fmt.Sprintf("{\n%s = []\nfor i <- fromto(0, %d) %s = %s + [%s]\n}", x, k, x, x, loopLiteral(t)))
			nontrivial = true
		case op == 6 && !str:
			emit(fmt.Sprintf("%s = lits(%d) + [litc(%d), litc(%d), lit(), lit(), litd(%d), litd(%d)]", x, rapid.IntRange(0, 3).Draw(t, "n"), rapid.IntRange(0, 9).Draw(t, "a"), rapid.IntRange(0, 9).Draw(t, "b"), rapid.IntRange(0, 9).Draw(t, "c"), rapid.IntRange(0, 9).Draw(t, "d")))
			nontrivial = true
		case op == 7:
			src, ok := pick(str)
			if !ok {
				emit(fmt.Sprintf("%s = %s", x, operand(str)))
				break
			}
			empty := "[]"
			wrap := "[e]"
			if str {
				empty, wrap = `""`, "e"
			}
			emit(fmt.Sprintf("{\n%s = %s\nfor e <- elems(%s) %s = %s + %s\n}", x, empty, src.name, x, x, wrap))
		case op == 8 && !str:
			src, ok := pick(false)
			if !ok {
				emit(fmt.Sprintf("%s = twice(%s)", x, operand(false)))
				break
			}
			switch rapid.IntRange(0, 2).Draw(t, "capture") {
			case 0:
				emit(fmt.Sprintf("{\ncf = mkc(%s)\n%s = cf() + [0]\n}", src.name, x))
			case 1:
				emit(fmt.Sprintf("for zg <- gen(%s) %s = zg + zg", src.name, x))
			default:
				emit(fmt.Sprintf("%s = first(%s)", x, src.name))
			}
		default:
			emit(fmt.Sprintf("%s = twice(%s)", x, operand(str)))
		}
		if isNew {
			vars = append(vars, target)
		}
		// the probe of every variable
		names := []string{}
		for _, v := range vars {
			names = append(names, v.name)
		}
		stmts = append(stmts, "["+strings.Join(names, ", ")+"]")
		probes = append(probes, x)
	}
	return
}

// loopLiteral spells an array literal with a constant prefix of 0-4 elements
// followed by elements computed from the loop variable i (the compiler keeps
// the constant prefix in the data segment and appends the rest at run time).
func loopLiteral(t *rapid.T) string {
	parts := []string{}
	for p := rapid.IntRange(0, 4).Draw(t, "prefix"); p > 0; p-- {
		parts = append(parts, rapid.SampledFrom([]string{"1", "2", "\"c\"", "[7]", "true"}).Draw(t, "const"))
	}
	for n := rapid.IntRange(1, 3).Draw(t, "tail"); n > 0; n-- {
		parts = append(parts, rapid.SampledFrom([]string{"i", "i + 1", "[i]", "3", "toa(i)", "[4, i]"}).Draw(t, "elem"))
	}
	return "[" + strings.Join(parts, ", ") + "]"
}

// c10Check runs the session on the VM: every probe must show all variables but
// the one just assigned unchanged; then the whole session is compared with the reference.
func c10Check(stmts []string) string {
	s := run.NewSession()
	prev := map[string]string{}
	lastAssigned := ""
	for i, src := range stmts {
		vr := s.Run(src, false, 3000000)
		if vr.Panic != "" {
			return fmt.Sprintf("stmt %d aborts: %s", i, firstLine(vr.Panic))
		}
		if vr.ParseErr != nil {
			return fmt.Sprintf("INTERNAL stmt %d: %v", i, vr.ParseErr)
		}
		if !strings.HasPrefix(src, "[v") {
			lastAssigned = assignedName(src)
			continue
		}
		if vr.Err != "" {
			continue // compared with the reference below
		}
		names := strings.Split(strings.Trim(src, "[]"), ", ")
		arr, ok := vr.Val.(ref.Arr)
		if !ok || len(arr) != len(names) {
			return fmt.Sprintf("stmt %d: probe gives %s", i, ref.Str(vr.Val))
		}
		for k, n := range names {
			now := ref.Str(arr[k])
			if old, seen := prev[n]; seen && n != lastAssigned && old != now {
				return fmt.Sprintf("after statement %d (%s): variable %s, which it does not assign, changed from %s to %s", i-1, clipS(stmts[i-1]), n, clipS(old), clipS(now))
			}
			prev[n] = now
		}
	}
	if o := diffSession(stmts, diffOpts{}); o.bad() {
		return o.kind + " " + o.why
	}
	return ""
}

func assignedName(src string) string {
	for _, line := range strings.Split(src, "\n") {
		line = strings.TrimSpace(line)
		if strings.HasPrefix(line, "v") {
			if i := strings.Index(line, " = "); i > 0 {
				return line[:i]
			}
		}
		if strings.HasPrefix(line, "for ") {
			if i := strings.Index(line, ") v"); i > 0 {
				rest := line[i+2:]
				if j := strings.Index(rest, " = "); j > 0 {
					return rest[:j]
				}
			}
		}
	}
	return ""
}

// ---------------------------------------------------------------------------
// value API

type valOp struct {
	Op      string `json:"op"` // lit, add, slice, wrap
	A       int    `json:"a,omitempty"`
	B       int    `json:"b,omitempty"`
	I       int    `json:"i,omitempty"`
	J       int    `json:"j,omitempty"`
	Literal []int  `json:"lit,omitempty"`
	Str     string `json:"str,omitempty"`
}

func runValOps(ops []valOp) (why string, sliceConcat bool) {
	pool := []value.Type{}
	snap := []string{}
	add := func(v value.Type) {
		pool = append(pool, v)
		snap = append(snap, v.String())
	}
	for step, op := range ops {
		func() {
			defer func() {
				if x := recover(); x != nil {
					why = fmt.Sprintf("op %d %s panics: %v", step, op.Op, x)
				}
			}()
			switch op.Op {
			case "lit":
				a := make([]value.Type, 0, len(op.Literal))
				for _, e := range op.Literal {
					a = append(a, value.NewInt(e))
				}
				add(value.NewArray(a))
			case "slit":
				add(value.NewString(op.Str))
			case "add":
				if len(pool) == 0 {
					return
				}
				a, b := pool[op.A%len(pool)], pool[op.B%len(pool)]
				if v, err := a.Arith(bytecode.ADD, b); err == nil {
					add(v)
				}
			case "slice":
				if len(pool) == 0 {
					return
				}
				a := pool[op.A%len(pool)]
				arr, _ := a.ToArray()
				n := len(arr)
				if str, ok := a.ToString(); ok {
					n = len(str)
				}
				i := op.I % (n + 1)
				j := i + op.J%(n-i+1)
				if v, err := a.Index(value.NewInt(i), value.NewInt(j)); err == nil {
					if j < n {
						sliceConcat = true
					}
					add(v)
				}
			case "wrap":
				if len(pool) == 0 {
					return
				}
				add(value.NewArray([]value.Type{pool[op.A%len(pool)], pool[op.B%len(pool)]}))
			}
		}()
		if why != "" {
			return
		}
		for k, v := range pool {
			if got := v.String(); got != snap[k] {
				return fmt.Sprintf("after op %d (%s): value %d changed from %s to %s", step, op.Op, k, clipS(snap[k]), clipS(got)), sliceConcat
			}
		}
	}
	return "", sliceConcat
}

func c10Prop(rec *ev.Recorder) func(t *rapid.T) {
	return func(t *rapid.T) {
		if rapid.IntRange(0, 3).Draw(t, "which") == 0 {
			n := rapid.IntRange(3, 40).Draw(t, "n")
			ops := []valOp{{Op: "lit", Literal: []int{1, 2, 3, 4}}}
			for i := 0; i < n; i++ {
				op := valOp{Op: rapid.SampledFrom([]string{"lit", "slit", "add", "add", "add", "slice", "slice", "wrap"}).Draw(t, "op"),
					A: rapid.IntRange(0, 50).Draw(t, "a"), B: rapid.IntRange(0, 50).Draw(t, "b"),
					I: rapid.IntRange(0, 9).Draw(t, "i"), J: rapid.IntRange(0, 9).Draw(t, "j")}
				if op.Op == "lit" {
					// lengths aimed at the capacity steps of append-style storage (4, 8, 16, 32)
					ln := rapid.SampledFrom([]int{0, 1, 2, 3, 4, 5, 7, 8, 9, 15, 16, 17, 31, 33}).Draw(t, "len")
					op.Literal = rapid.SliceOfN(rapid.IntRange(0, 9), ln, ln).Draw(t, "lit")
				}
				if op.Op == "slit" {
					ln := rapid.SampledFrom([]int{0, 1, 2, 3, 4, 5, 7, 8, 9, 15, 16, 17, 31, 33}).Draw(t, "len")
					op.Str = rapid.StringOfN(rapid.RuneFrom([]rune("abcxyz01-")), ln, ln, -1).Draw(t, "str")
				}
				ops = append(ops, op)
			}
			why, sc := runValOps(ops)
			if why != "" {
				fail(t, "C10", "valops", ops, "%s", why)
			}
			rec.Case(fmt.Sprint(ops), sc, "value-api")
			return
		}
		stmts, _, nt := c10Session(t)
		text := joinStmts(stmts[10:])
		if why := c10Check(stmts); why != "" {
			fail(t, "C10", "session", map[string]any{"stmts": stmts}, "%s\n%s", why, text)
		}
		rec.Case(text, nt, "session")
	}
}

func init() {
	replayers["C10"] = func(kind string, c json.RawMessage) string {
		switch kind {
		case "session":
			var v struct{ Stmts []string }
			mustJSON(c, &v)
			return c10Check(v.Stmts)
		case "valops":
			var v []valOp
			mustJSON(c, &v)
			why, _ := runValOps(v)
			return why
		}
		return ""
	}
}

func TestC10(t *testing.T) {
	if replayMode(t, "C10") {
		return
	}
	rec := ev.New("C10", c10Rule,
		"values are observed through their printed form (toa rendering), which is what the property speaks about",
		"the reference has value semantics by construction (every slice and concatenation copies)")
	rec.Extra["regression_cases"] = runRegressions(t, "C10")
	defer finish(t, rec)
	rapid.Check(t, c10Prop(rec))
}
