package props

import (
	"encoding/json"
	"fmt"
	"os"
	"strings"
	"testing"

	"pgregory.net/rapid"

	"github.com/paulsonkoly/calc/types/bytecode"
	"github.com/paulsonkoly/calc/types/value"

	"verif/harness/ev"
	"verif/harness/ref"
	"verif/harness/run"
)

// C15 Encodings are lossless and size limits are enforced, never wrapped.

const c15Rule = "(a) instruction codec: all 128 opcodes x 3 operand slots x 8 operand kinds x addresses from {min, min+1, -1, 0, 1, max-1, max} and random, single operands, three operands OR-ed together and jump patching into a zero operand; addresses just outside the decodable range must be refused; function values: entry x parameter count x local count round trip; " +
	"(b) programs sized around the 2^15 / 2^16 limits: k statements in a session, k name references in one statement, a function body of k statements, k locals, k parameters; each must be refused at compile time (segments untouched) or give the closed-form value, later statements still work or are refused; " +
	"non-trivial = (a) an address within 2 of a field boundary or a combined instruction, (b) every program; distinct by case text"

const (
	addrMin = -(1 << 15)
	addrMax = 1<<15 - 1
)

var c15Kinds = []uint64{bytecode.AddrInv, bytecode.AddrImm, bytecode.AddrGbl, bytecode.AddrLcl, bytecode.AddrCls, bytecode.AddrStck, bytecode.AddrTmp, bytecode.AddrDS}

func srcOf(b bytecode.Type, sel int) (uint64, int) {
	switch sel {
	case 0:
		return b.Src0(), b.Src0Addr()
	case 1:
		return b.Src1(), b.Src1Addr()
	default:
		return b.Src2(), b.Src2Addr()
	}
}

// encode calls EncodeSrc; refused tells that it panicked with a range error.
func encode(sel int, kind uint64, addr int) (b bytecode.Type, refused bool, other string) {
	defer func() {
		if x := recover(); x != nil {
			if strings.Contains(fmt.Sprint(x), "range") {
				refused = true
				return
			}
			other = fmt.Sprint(x)
		}
	}()
	return bytecode.EncodeSrc(sel, kind, addr), false, ""
}

// codecOne checks one operand encoding.
func codecOne(op int, sel int, kind uint64, addr int) string {
	b, refused, other := encode(sel, kind, addr)
	if other != "" {
		return "EncodeSrc panics: " + other
	}
	inRange := addr >= addrMin && addr <= addrMax
	if refused {
		if inRange {
			return "a decodable address is refused"
		}
		return ""
	}
	instr := bytecode.New(bytecode.OpCode(op)) | b
	k, a := srcOf(instr, sel)
	if instr.OpCode() != bytecode.OpCode(op) || k != kind || a != addr {
		if !inRange {
			return fmt.Sprintf("address %d is outside the operand field but was encoded; it decodes to opcode %d kind %d address %d (wrapped)", addr, instr.OpCode(), k, a)
		}
		return fmt.Sprintf("decodes to opcode %d kind %d address %d", instr.OpCode(), k, a)
	}
	// the other two operands stay empty
	for o := 0; o < 3; o++ {
		if o != sel {
			if k, a := srcOf(instr, o); k != 0 || a != 0 {
				return fmt.Sprintf("operand %d is disturbed: kind %d address %d", o, k, a)
			}
		}
	}
	return ""
}

// codecThree checks three operands OR-ed into one instruction, the last one patched in later.
func codecThree(op int, kinds [3]uint64, addrs [3]int) string {
	instr := bytecode.New(bytecode.OpCode(op))
	for sel := 0; sel < 2; sel++ {
		b, refused, other := encode(sel, kinds[sel], addrs[sel])
		if refused || other != "" {
			return ""
		}
		instr |= b
	}
	// patch operand 2 (as jumps are patched into an operand that was left zero)
	b, refused, other := encode(2, kinds[2], addrs[2])
	if refused || other != "" {
		return ""
	}
	instr |= b
	if instr.OpCode() != bytecode.OpCode(op) {
		return fmt.Sprintf("opcode decodes to %d", instr.OpCode())
	}
	for sel := 0; sel < 3; sel++ {
		if k, a := srcOf(instr, sel); k != kinds[sel] || a != addrs[sel] {
			return fmt.Sprintf("operand %d decodes to kind %d address %d, built from kind %d address %d", sel, k, a, kinds[sel], addrs[sel])
		}
	}
	return ""
}

var c15Addrs = []int{addrMin, addrMin + 1, -2, -1, 0, 1, 2, 255, 256, addrMax - 1, addrMax}
var c15Outside = []int{addrMax + 1, addrMax + 2, addrMin - 1, addrMin - 2, 65535, 65536, -65535, -65536, 1 << 20, -(1 << 20), 1<<31 - 1}

func c15CodecExhaustive(rec *ev.Recorder) string {
	for op := 0; op < 128; op++ {
		for sel := 0; sel < 3; sel++ {
			for _, kind := range c15Kinds {
				for _, addr := range append(append([]int{}, c15Addrs...), c15Outside...) {
					if why := codecOne(op, sel, kind, addr); why != "" {
						return fmt.Sprintf("opcode %d operand %d kind %d address %d: %s", op, sel, kind, addr, why)
					}
				}
			}
		}
		rec.Case(fmt.Sprintf("codec opcode %d x 3 slots x 8 kinds x %d addresses", op, len(c15Addrs)+len(c15Outside)), true, "codec-exhaustive")
	}
	return ""
}

func funcRoundTrip(entry, params, locals int) string {
	f := value.NewFunction(entry, nil, params, locals)
	d, ok := f.ToFunction()
	if !ok {
		return "not a function"
	}
	if d.Node != entry || d.ParamCnt != params || d.LocalCnt != locals {
		return fmt.Sprintf("function value (entry %d, params %d, locals %d) reads back as (%d, %d, %d)", entry, params, locals, d.Node, d.ParamCnt, d.LocalCnt)
	}
	return ""
}

func c15CodecProp(rec *ev.Recorder) func(t *rapid.T) {
	addr := rapid.OneOf(rapid.SampledFrom(c15Addrs), rapid.IntRange(addrMin, addrMax), rapid.SampledFrom(c15Outside), rapid.IntRange(-(1<<17), 1<<17))
	return func(t *rapid.T) {
		op := rapid.IntRange(0, 127).Draw(t, "op")
		if rapid.Bool().Draw(t, "function") {
			e := rapid.OneOf(rapid.IntRange(0, 1<<20), rapid.SampledFrom([]int{0, 1, 1<<31 - 1, 1 << 31, 1<<32 - 1})).Draw(t, "entry")
			p := rapid.OneOf(rapid.IntRange(0, 300), rapid.SampledFrom([]int{0, 1, 255, 256, 32767, 32768, 65535})).Draw(t, "params")
			l := rapid.OneOf(rapid.IntRange(0, 300), rapid.SampledFrom([]int{0, 1, 255, 256, 32767, 32768, 65535})).Draw(t, "locals")
			if why := funcRoundTrip(e, p, l); why != "" {
				fail(t, "C15", "function", map[string]any{"entry": e, "params": p, "locals": l}, "%s", why)
			}
			rec.Case(fmt.Sprintf("function %d %d %d", e, p, l), true, "function-value")
			return
		}
		var kinds [3]uint64
		var addrs [3]int
		near := false
		for i := range kinds {
			kinds[i] = rapid.SampledFrom(c15Kinds).Draw(t, "kind")
			addrs[i] = addr.Draw(t, "addr")
			if addrs[i] <= addrMin+2 || addrs[i] >= addrMax-2 {
				near = true
			}
			if why := codecOne(op, i, kinds[i], addrs[i]); why != "" {
				fail(t, "C15", "operand", map[string]any{"op": op, "sel": i, "kind": kinds[i], "addr": addrs[i]}, "opcode %d operand %d kind %d address %d: %s", op, i, kinds[i], addrs[i], why)
			}
		}
		if why := codecThree(op, kinds, addrs); why != "" {
			fail(t, "C15", "instruction", map[string]any{"op": op, "kinds": kinds, "addrs": addrs}, "opcode %d kinds %v addresses %v: %s", op, kinds, addrs, why)
		}
		rec.Case(fmt.Sprintf("instr %d %v %v", op, kinds, addrs), near, "codec-random")
	}
}

// ---------------------------------------------------------------------------
// programs around the limits

type sizeCase struct {
	Shape string `json:"shape"`
	K     int    `json:"k"`
}

// sizeProgram builds the session of a size case: statements and the expected
// rendering of each statement's value if it is not refused ("" = do not care).
func sizeProgram(c sizeCase) (stmts []string, expect []string) {
	var sb strings.Builder
	switch c.Shape {
	case "names-in-one-statement": // k references to a global in one expression
		stmts = append(stmts, "g = 1")
		expect = append(expect, "1")
		for i := 0; i < c.K; i++ {
			if i > 0 {
				sb.WriteString(" + ")
			}
			sb.WriteString("g")
		}
		stmts = append(stmts, sb.String())
		expect = append(expect, fmt.Sprint(c.K))
	case "literals-in-one-statement":
		for i := 0; i < c.K; i++ {
			if i > 0 {
				sb.WriteString(" + ")
			}
			sb.WriteString("2")
		}
		stmts = append(stmts, sb.String())
		expect = append(expect, fmt.Sprint(2*c.K))
	case "function-body": // jump over a body of k statements
		sb.WriteString("f = (x) -> {\n")
		for i := 0; i < c.K; i++ {
			sb.WriteString("x = x + 2\n")
		}
		sb.WriteString("x\n}")
		stmts = append(stmts, sb.String(), "f(1)")
		expect = append(expect, "function", fmt.Sprint(1+2*c.K))
	case "locals":
		sb.WriteString("f = (x) -> {\n")
		for i := 0; i < c.K; i++ {
			fmt.Fprintf(&sb, "%s = x\n", letters("u", i))
		}
		fmt.Fprintf(&sb, "%s + %s + 5\n}", letters("u", 0), letters("u", c.K-1))
		stmts = append(stmts, sb.String(), "f(10)")
		expect = append(expect, "function", "25")
	case "parameters":
		ps, as := []string{}, []string{}
		for i := 0; i < c.K; i++ {
			ps = append(ps, letters("p", i))
			as = append(as, "3")
		}
		stmts = append(stmts, "f = ("+strings.Join(ps, ", ")+") -> "+ps[0]+" + "+ps[c.K-1], "f("+strings.Join(as, ", ")+")")
		expect = append(expect, "function", "6")
	case "if-else-long", "if-then-long", "while-long", "for-long":
		// a control statement whose branch or body is about k instructions long (function definitions
		// of <= 20000 constant-free statements each): the jump across it works or the statement is refused
		var fs strings.Builder
		for left, i := c.K, 0; left > 0; left, i = left-20000, i+1 {
			fmt.Fprintf(&fs, "%s = () -> {\nx = 0\n%s}\n", letters("zg", i), strings.Repeat("x = x\n", min(left, 20000)))
		}
		switch c.Shape {
		case "if-else-long":
			stmts = append(stmts, "r = 10", "if r == 10 {\nr = r + 1\n} else {\n"+fs.String()+"r = r + 2\n}", "r")
			expect = append(expect, "10", "", "11")
		case "if-then-long":
			stmts = append(stmts, "r = 10", "if r != 10 {\n"+fs.String()+"r = r + 1\n} else {\nr = r + 2\n}", "r", "if r != 12 {\n"+fs.String()+"r = r + 1\n}", "r")
			expect = append(expect, "10", "", "12", "", "12")
		case "while-long":
			stmts = append(stmts, "r = 0", "while r < 2 {\n"+fs.String()+"r = r + 1\n}", "r")
			expect = append(expect, "0", "", "2")
		default:
			stmts = append(stmts, "r = 0", "for zv <- fromto(0, 3) {\n"+fs.String()+"r = r + zv\n}", "r")
			expect = append(expect, "0", "", "3")
		}
	case "parameters-unused": // the count alone: too few arguments must be an arity error, the right number works
		ps, as := []string{}, []string{}
		for i := 0; i < c.K; i++ {
			ps = append(ps, letters("p", i))
			as = append(as, "3")
		}
		stmts = append(stmts, "f = ("+strings.Join(ps, ", ")+") -> 7", "f()", "f("+strings.Join(as[1:], ", ")+")", "f("+strings.Join(as, ", ")+")")
		expect = append(expect, "function", "!arity mismatch", "!arity mismatch", "7")
	case "session-statements": // k small statements one after the other
		for i := 0; i < c.K; i++ {
			stmts = append(stmts, fmt.Sprintf("s = %d + 1", i%100))
			expect = append(expect, fmt.Sprint(i%100+1))
		}
	default:
		panic("sizeProgram: " + c.Shape)
	}
	// afterwards the session still works (or refuses)
	stmts = append(stmts, "h = (a) -> a * 2", "h(21)")
	expect = append(expect, "function", "42")
	return
}

func runSizeCase(c sizeCase) (why string, refused int) {
	stmts, expect := sizeProgram(c)
	s := run.NewSession()
	for i, src := range stmts {
		cs, ds := len(*s.CR.CS), len(*s.CR.DS)
		vr := s.Run(src, false, 0)
		switch {
		case vr.Panic != "":
			return fmt.Sprintf("statement %d (%s...): aborts with %s", i, clipN(src, 40), firstLine(vr.Panic)), refused
		case vr.ParseErr != nil:
			return fmt.Sprintf("statement %d: parse error %v", i, vr.ParseErr), refused
		case vr.CompileErr != nil:
			refused++
			if len(*s.CR.CS) != cs || len(*s.CR.DS) != ds {
				return fmt.Sprintf("statement %d refused but the segments changed (code %d->%d, data %d->%d)", i, cs, len(*s.CR.CS), ds, len(*s.CR.DS)), refused
			}
			continue
		case vr.Err != "" && refused > 0:
			// depends on a statement that was refused: not pinned
			continue
		case strings.HasPrefix(expect[i], "!"):
			if string(vr.Err) != expect[i][1:] {
				return fmt.Sprintf("statement %d (%s...): %q (value %s) instead of the error %q or a refusal", i, clipN(src, 40), vr.Err, clipS(ref.Str(vr.Val)), expect[i][1:]), refused
			}
			continue
		case vr.Err != "":
			return fmt.Sprintf("statement %d (%s...): runtime error %q instead of %s or a refusal", i, clipN(src, 40), vr.Err, expect[i]), refused
		}
		if expect[i] != "" {
			if got := ref.Str(vr.Val); got != expect[i] {
				// a value that depends on a refused earlier statement is not pinned
				if refused == 0 {
					return fmt.Sprintf("statement %d (%s...): value %s, expected %s", i, clipN(src, 40), clipS(got), expect[i]), refused
				}
			}
		}
	}
	return "", refused
}

func clipN(s string, n int) string {
	if len(s) > n {
		return s[:n]
	}
	return s
}

var c15Shapes = []string{"names-in-one-statement", "literals-in-one-statement", "function-body", "locals", "parameters", "session-statements"}

func c15Programs(t *testing.T, rec *ev.Recorder, ks []int, seed int) {
	for i, shape := range c15Shapes {
		for j, k := range ks {
			// vary the size a little with the seed so that runs differ
			k += (seed*7 + i*3 + j) % 5
			c := sizeCase{Shape: shape, K: k}
			if shape == "session-statements" && k > 40000 {
				continue
			}
			why, refused := runSizeCase(c)
			if why != "" {
				ev.Repro("C15", "size", c)
				t.Fatalf("%s x %d: %s", shape, k, why)
			}
			rec.Case(fmt.Sprintf("size %s x %d", shape, k), true, "size-program", fmt.Sprintf("refused:%v", refused > 0))
		}
	}
	// jumps across 2^15 and 2^16 instructions
	for _, shape := range []string{"if-else-long", "if-then-long", "while-long", "for-long"} {
		for _, k := range []int{32000 + seed%7*300, 66000 + seed%5*100} {
			c := sizeCase{Shape: shape, K: k}
			why, refused := runSizeCase(c)
			if why != "" {
				ev.Repro("C15", "size", c)
				t.Fatalf("%s x %d: %s", shape, k, why)
			}
			rec.Case(fmt.Sprintf("size %s x %d", shape, k), true, "size-jump", fmt.Sprintf("refused:%v", refused > 0))
		}
	}
	// the exact boundaries of the 15/16 bit fields, per shape that counts something
	for _, shape := range []string{"parameters-unused", "parameters", "locals"} {
		for _, k := range []int{32767, 32768, 32769, 65535, 65536, 65537} {
			c := sizeCase{Shape: shape, K: k}
			why, refused := runSizeCase(c)
			if why != "" {
				ev.Repro("C15", "size", c)
				t.Fatalf("%s x %d: %s", shape, k, why)
			}
			rec.Case(fmt.Sprintf("size %s x %d", shape, k), true, "size-boundary", fmt.Sprintf("refused:%v", refused > 0))
		}
	}
}

// ---------------------------------------------------------------------------
// sessions with refused statements through the built binary (file mode)

type refusalCase struct {
	Stmts []string `json:"stmts"` // statements; an oversized one starts with oversizeMark
}

var c15Names = []string{"limit", "total", "spare", "ka", "kb", "kc", "kd"}

func genRefusalCase(t *rapid.T) refusalCase {
	var c refusalCase
	name := func() string { return rapid.SampledFrom(c15Names).Draw(t, "name") }
	n := rapid.IntRange(4, 14).Draw(t, "n")
	for i := 0; i < n; i++ {
		switch rapid.IntRange(0, 5).Draw(t, "kind") {
		case 0, 1:
			c.Stmts = append(c.Stmts, fmt.Sprintf("%s = %d", name(), rapid.IntRange(0, 99).Draw(t, "v")))
		case 2:
			c.Stmts = append(c.Stmts, fmt.Sprintf("%s = [%s, %d]", name(), name(), rapid.IntRange(0, 9).Draw(t, "v")))
		case 3:
			c.Stmts = append(c.Stmts, fmt.Sprintf("write(toa([%s, %s]) + \" \")", name(), name()))
		default:
			// refused: mentions (possibly new) global names before the point where it gets too large
			a, b := name(), name()
			// one physical line: the statement reader copies a many-line statement quadratically
			c.Stmts = append(c.Stmts, oversizeMark+a+" = ["+b+strings.Repeat(", 1", 33000)+"]")
		}
	}
	c.Stmts = append(c.Stmts, "write(toa(["+strings.Join(c15Names, ", ")+"]))")
	return c
}

// refusalCheck runs the script in file mode; statements built to be refused must
// print a compiler message and leave no trace, everything else behaves as in a
// session that never contained them.
func refusalCheck(tb testing.TB, c refusalCase) string {
	rf := ref.New()
	want := ""
	refused := 0
	var script strings.Builder
	for _, s := range c.Stmts {
		if strings.HasPrefix(s, oversizeMark) {
			refused++
			script.WriteString(strings.TrimPrefix(s, oversizeMark) + "\n")
			continue
		}
		script.WriteString(s + "\n")
		rr, perr := rf.RunStmt(s)
		if perr != nil || rr.Skipped() || rr.Err != nil {
			return "" // not in the domain of this check
		}
		want += rr.Out
	}
	r := runCalc(tb, "file", script.String(), "")
	if crashed(r) {
		return fmt.Sprintf("aborts:\n%s", clipS(lastLines(r.out, 8)))
	}
	got := ""
	messages := 0
	for _, line := range strings.SplitAfter(r.out, "\n") {
		if i := strings.Index(line, "Compiler:"); i >= 0 {
			messages++
			got += line[:i]
			continue
		}
		got += line
	}
	if messages != refused {
		return fmt.Sprintf("%d statements exceed the limits, %d compiler messages were printed:\n%s", refused, messages, clipS(r.out))
	}
	if got != want {
		return fmt.Sprintf("output %q, without the refused statements the session prints %q", clipS(got), clipS(want))
	}
	return ""
}

func init() {
	replayers["C15"] = func(kind string, c json.RawMessage) string {
		switch kind {
		case "refusal":
			var v refusalCase
			mustJSON(c, &v)
			return refusalCheck(replayT, v)
		case "size":
			var v sizeCase
			mustJSON(c, &v)
			why, _ := runSizeCase(v)
			return why
		case "operand":
			var v struct {
				Op, Sel int
				Kind    uint64
				Addr    int
			}
			mustJSON(c, &v)
			return codecOne(v.Op, v.Sel, v.Kind, v.Addr)
		case "instruction":
			var v struct {
				Op    int
				Kinds [3]uint64
				Addrs [3]int
			}
			mustJSON(c, &v)
			return codecThree(v.Op, v.Kinds, v.Addrs)
		case "function":
			var v struct{ Entry, Params, Locals int }
			mustJSON(c, &v)
			return funcRoundTrip(v.Entry, v.Params, v.Locals)
		case "exhaustive":
			return c15CodecExhaustive(ev.New("C15", ""))
		}
		return ""
	}
}

func TestC15(t *testing.T) {
	replayT = t
	if replayMode(t, "C15") {
		return
	}
	rec := ev.New("C15", c15Rule,
		"the decodable operand range is the signed 16 bit field read off bytecode.go (convImm sign-extends 16 bits)",
		"program sizes are explored around 2^15 and 2^16, not beyond ~70000 constants/instructions/locals")
	rec.Extra["regression_cases"] = runRegressions(t, "C15")
	defer finish(t, rec)
	if why := c15CodecExhaustive(rec); why != "" {
		ev.Repro("C15", "exhaustive", map[string]any{"what": why})
		t.Fatalf("%s", why)
	}
	if os.Getenv("VERIF_SHARD") == "" || os.Getenv("VERIF_SHARD") == "0" {
		ks := []int{16000, 32600, 33000}
		if tierScale() > 1 {
			ks = []int{100, 16380, 30000, 32760, 32770, 40000, 65530, 65540, 70000}
		}
		c15Programs(t, rec, ks, envInt("VERIF_SEED", 1))
	}
	cp := c15CodecProp(rec)
	// rapid's integer generators favour small values, so the rare binary-level
	// case is scheduled by position: one in 40000 cases (8 per quick run)
	nth := 0
	rapid.Check(t, func(rt *rapid.T) {
		nth++
		if nth%40000 == 1 {
			c := genRefusalCase(rt)
			if why := refusalCheck(t, c); why != "" {
				fail(rt, "C15", "refusal", c, "%s", why)
			}
			rec.Case("refusal session "+fmt.Sprint(len(c.Stmts)), true, "refusal-session-binary")
			return
		}
		cp(rt)
	})
}
