package props

import (
	"bytes"
	"encoding/json"
	"fmt"
	"os"
	"os/exec"
	"path/filepath"
	"regexp"
	"strings"
	"sync"
	"testing"
	"time"

	"pgregory.net/rapid"

	"github.com/paulsonkoly/calc/lexer"
	"github.com/paulsonkoly/calc/parser"
	"github.com/paulsonkoly/calc/types/node"

	"verif/harness/ev"
	"verif/harness/gen"
	"verif/harness/run"
)

// C06 The front end is total: any text is parsed or rejected, in finite time.

const c06Rule = "inputs: token soup (lexemes, keywords, partial lexemes, quotes, backslashes, comment starts, NUL, non-ASCII and invalid UTF-8, huge literals), every-prefix cuts of printed valid programs, bracket/arrow/if/call nesting to depth 3000 in process; " +
	"through the built binary: broken statements with a visible side effect before the error in all three run modes, and nesting bombs of 4*10^5 (quick) to 10^6 (thorough) levels; " +
	"non-trivial = the input holds at least one of: string/comment open at the end, a literal of >= 19 digits, a byte >= 0x80 or NUL, nesting >= 50, or a parse error after >= 3 tokens; distinct by input text"

var soupAlphabet = []string{"a", "b", "if", "else", "while", "for", "return", "yield", "true", "false", "1", "23", "4.5", "\"s\"", "\"", "\\", "\\\"", "\\n", ";", " ", " ", "\n", "\t", "(", ")", "{", "}", "[", "]", ",", ":", "+", "-", "*", "/", "=", "<", ">", "!", "&", "|", "#", "%", "~", "->", "<-", "==", ".", "é", "\xff", "@", "99999999999999999999", "x", "f(", "(a) ->", "\x00", "1.", "\r", "'", "9223372036854775807", "9223372036854775808", "$", "\u0080", "\u00a0", "\u2028", "\ufeff", "\U0010ffff", "\xc2", "\x7f",
	// literals and names that make long messages: many bytes in few characters, and the other way round
	"\"" + strings.Repeat("語", 40) + "\"", "\"" + strings.Repeat("é", 60) + "\"", "\"" + strings.Repeat("a", 300) + "\"", "\"" + strings.Repeat("語", 25) + strings.Repeat("a", 50) + "\"",
	strings.Repeat("n", 200), strings.Repeat("7", 18), "\"" + strings.Repeat("\U0001F600", 31) + "\""}

// boundaryRunes are characters at the edges of the encodings and character
// classes (as text: some are not valid UTF-8 on purpose).
var boundaryRunes = []string{"\x01", "\x1b", "\x7f", "\u0080", "\u0081", "\u0085", "\u00a0", "\u00aa", "\u00ff", "\u0100", "\u07ff", "\u0800", "\u2028", "\u3000",
	"\ufeff", "\ufffd", "\uffff", "\U00010000", "\U0010ffff", "\xc2", "\xe0\x80", "\xed\xa0\x80", "\xf4\x90\x80\x80", "\xc0\x80", "\x80", "\xfe"}

// boundaryContexts put one character into every lexer state.
var boundaryContexts = []string{"%s", "x = 1 + %s 2", "x = 1 +%s", "f(%s)", "\"a%sb\"", "; c %s\nx", "a%s", "a%sb = 1", "1%s", "1.5%s", "+%s", "%s+", "[1, %s]", "\"a\\%s\"", "x\n%s\ny", "%s%s", "if %s 1"}

var caretRe = regexp.MustCompile(`^ *\^~*\^$`)

// frontEnd runs lexer, parser and error display on src and returns "" or what
// is wrong. hang is true when the front end did not finish in hangLimit.
func frontEnd(src string) (why string, hang bool, perr *parser.Error, ntok int) {
	finished := watchdog(hangLimit, func() {
		defer func() {
			if x := recover(); x != nil {
				why = fmt.Sprintf("panic: %v", x)
			}
		}()
		l := lexer.NewLexer(src)
		cnt := 0
		for l.Next() {
			cnt++
			if cnt > 4*len(src)+8 {
				why = fmt.Sprintf("lexer returned %d tokens for %d bytes", cnt, len(src))
				return
			}
			if l.Err != nil {
				break
			}
		}
		ntok = cnt
		var tree []node.Type
		tree, perr = parser.Parse(src)
		if perr == nil {
			_ = tree
			return
		}
		if perr.From() < 0 || perr.From() > perr.To() || perr.To() > len(src) {
			why = fmt.Sprintf("error span [%d,%d] outside the %d byte input (%s)", perr.From(), perr.To(), len(src), perr.Message())
			return
		}
		var out string
		func() {
			defer func() {
				if x := recover(); x != nil {
					why = fmt.Sprintf("displaying the error panics: %v (span [%d,%d], %d bytes)", x, perr.From(), perr.To(), len(src))
				}
			}()
			out = run.Capture(func() { node.VerifReportError(perr, src) })
		}()
		if why != "" {
			return
		}
		// message line, offending line(s), caret line
		if !strings.HasPrefix(out, perr.Message()+"\n") || !strings.HasSuffix(out, "\n") {
			why = fmt.Sprintf("error display %q does not start with the message %q", out, perr.Message())
			return
		}
		rest := strings.TrimSuffix(out[len(perr.Message())+1:], "\n")
		i := strings.LastIndex(rest, "\n")
		if i < 0 {
			why = fmt.Sprintf("error display %q has no caret line", out)
			return
		}
		excerpt, caret := rest[:i], rest[i+1:]
		if !caretRe.MatchString(caret) {
			why = fmt.Sprintf("caret line %q", caret)
			return
		}
		if !strings.Contains(src, excerpt) {
			why = fmt.Sprintf("displayed excerpt %q is not part of the input", excerpt)
		}
	})
	if !finished {
		return "the front end does not terminate", true, nil, 0
	}
	return
}

var nestShapes = []struct{ name, open, mid, close string }{
	{"paren", "(", "1", ")"},
	{"bracket", "[", "1", "]"},
	{"call", "id(", "1", ")"},
	{"arrow", "() -> ", "1", ""},
	{"if", "if true ", "1", ""},
	{"block", "{\n", "1", "\n}"},
	{"index", "a[", "1", "]"},
	{"unary", "-(", "1", ")"},
	{"while", "while false ", "1", ""},
	{"open-paren", "(", "", ""},
	{"open-bracket", "[", "", ""},
	{"close-paren", "", "1", ")"},
	{"else", "if true 1 else ", "1", ""},
}

func nestBomb(shape, depth int) string {
	s := nestShapes[shape%len(nestShapes)]
	if s.name == "block" && depth > 20000 {
		// one statement of n lines costs the statement reader O(n^2) copying
		// (finite, but minutes at 10^6 lines); the parser itself is exercised by
		// the other shapes
		depth = 20000
	}
	return strings.Repeat(s.open, depth) + s.mid + strings.Repeat(s.close, depth)
}

// statements that are almost valid and run into the hand-written checks of the
// parser (as opposed to a token mismatch), at the very end of the input or not
var nearMisses = []string{
	"for i, j <- fromto(0, 3) write(i)", "for i <- a, b 1", "for i, j <- x {\n1\n}", "for i, j, k <- a, b {\nwrite(i)\n}", "f = () -> for a, b <- g() 1",
	"x = for i, j <- a 1", "if true for i, j <- a 1", "{\nfor i, j <- a 1\n}", "for i <- a, b, c {\nfor j, k <- d 1\n}",
	"true = 1", "if = 2", "x = return", "a = yield", "f(1,)", "[1,]", "[,1]", "(,) -> 1", "() ->", "x[1:]", "x[:1]", "x[]", "1 2 +", "f(", "-", "!", "#",
}

func genFrontEndInput(t *rapid.T) (src string, nest int) {
	switch rapid.IntRange(0, 11).Draw(t, "kind") {
	case 11:
		ctx := rapid.SampledFrom(boundaryContexts).Draw(t, "bctx")
		r := rapid.SampledFrom(boundaryRunes).Draw(t, "brune")
		return strings.ReplaceAll(ctx, "%s", r), 0
	case 10:
		pre := rapid.SampledFrom([]string{"", "", "a = 1\n", "\n", "; c\n", " "}).Draw(t, "pre")
		post := rapid.SampledFrom([]string{"", "", " ", "\n", " ; c", "\n\n", "\nb = 2"}).Draw(t, "post")
		return pre + rapid.SampledFrom(nearMisses).Draw(t, "nearmiss") + post, 0
	case 0, 1, 2, 3, 4: // token soup
		n := rapid.IntRange(0, 14).Draw(t, "n")
		var sb strings.Builder
		for j := 0; j < n; j++ {
			sb.WriteString(rapid.SampledFrom(soupAlphabet).Draw(t, "piece"))
		}
		return sb.String(), 0
	case 5, 6: // a prefix (or a cut with a piece of soup spliced in) of a valid program
		g := &gen.TreeGen{T: t}
		tree := g.Block(rapid.IntRange(1, 4).Draw(t, "depth"))
		text := (&gen.Printer{C: gen.RapidChooser{T: t}, Redundant: true}).Top(tree)
		cut := rapid.IntRange(0, len(text)).Draw(t, "cut")
		src = text[:cut]
		if rapid.Bool().Draw(t, "splice") {
			src += rapid.SampledFrom(soupAlphabet).Draw(t, "piece") + text[cut:]
		}
		return src, 0
	case 7: // raw bytes
		return string(rapid.SliceOfN(rapid.Byte(), 0, 40).Draw(t, "bytes")), 0
	case 8: // huge literals
		return rapid.SampledFrom([]string{"%s", "%s.5", "1.%s", "x = %s + 1", "[%s]", "a[%s]", "%s.%s"}).Draw(t, "tmpl"), 0
	default: // nesting
		depth := rapid.SampledFrom([]int{1, 10, 50, 200, 1000, 3000}).Draw(t, "nestdepth")
		return nestBomb(rapid.IntRange(0, len(nestShapes)-1).Draw(t, "shape"), depth), depth
	}
}

func c06NonTrivial(src string, nest int, perr *parser.Error, ntok int) bool {
	if nest >= 50 {
		return true
	}
	for i := 0; i < len(src); i++ {
		if src[i] >= 0x80 || src[i] == 0 {
			return true
		}
	}
	if regexp.MustCompile(`[0-9]{19}`).MatchString(src) {
		return true
	}
	if perr != nil && strings.Contains(perr.Message(), "unterminated") {
		return true
	}
	if i := strings.LastIndex(src, ";"); i >= 0 && !strings.Contains(src[i:], "\n") {
		return true
	}
	return perr != nil && ntok >= 3
}

var hugeRe = regexp.MustCompile(`%s`)

func c06Prop(rec *ev.Recorder) func(t *rapid.T) {
	return func(t *rapid.T) {
		src, nest := genFrontEndInput(t)
		if strings.Contains(src, "%s") {
			d := rapid.IntRange(15, 400).Draw(t, "digits2")
			lit := strings.Repeat(rapid.SampledFrom([]string{"9", "1", "0", "12"}).Draw(t, "digit2"), d)
			src = hugeRe.ReplaceAllString(src, lit)
		}
		why, hang, perr, ntok := frontEnd(src)
		if hang {
			// do not let rapid shrink a hang: every attempt would leave a spinning goroutine behind
			ev.Repro("C06", "text", map[string]any{"src": src})
			fmt.Printf("--- FAIL: the front end does not terminate within %v on %q\n", hangLimit, clipS(src))
			os.Exit(1)
		}
		if why != "" {
			fail(t, "C06", "text", map[string]any{"src": src}, "%s\n  input %q", why, clipS(src))
		}
		feat := "accepted"
		if perr != nil {
			feat = "rejected"
		}
		rec.Case(src, c06NonTrivial(src, nest, perr, ntok), feat)
	}
}

// ---------------------------------------------------------------------------
// binary level

var (
	calcOnce sync.Once
	calcPath string
	calcErr  error
)

// calcBinary is the built cmd/calc (VERIF_CALC, set by the driver; built on demand otherwise).
func calcBinary(t testing.TB) string {
	calcOnce.Do(func() {
		if p := os.Getenv("VERIF_CALC"); p != "" {
			calcPath = p
			return
		}
		dir, err := os.MkdirTemp("", "verif-calc-")
		if err != nil {
			calcErr = err
			return
		}
		calcPath = filepath.Join(dir, "calc")
		cmd := exec.Command("go", "build", "-tags", "verif", "-o", calcPath, "github.com/paulsonkoly/calc/cmd/calc")
		cmd.Dir = ".."
		if out, err := cmd.CombinedOutput(); err != nil {
			calcErr = fmt.Errorf("building calc: %v\n%s", err, out)
		}
	})
	if calcErr != nil {
		t.Fatalf("%v", calcErr)
	}
	return calcPath
}

// binLimit is the safety net for one run of the binary (normal: milliseconds).
const binLimit = 5 * time.Minute

type binRes struct {
	out  string // stdout + stderr
	code int
	err  error
}

// runCalc runs the binary: mode "file" (script written to a temp file), "repl"
// (script piped to stdin) or "eval" (script as -eval argument). stdin feeds
// read() in file and eval mode.
func runCalc(t testing.TB, mode, script, stdin string) binRes {
	bin := calcBinary(t)
	var cmd *exec.Cmd
	switch mode {
	case "file":
		f, err := os.CreateTemp(shmDir(), "verif-*.calc")
		if err != nil {
			t.Fatalf("%v", err)
		}
		defer os.Remove(f.Name())
		f.WriteString(script)
		f.Close()
		cmd = exec.Command(bin, f.Name())
		cmd.Stdin = strings.NewReader(stdin)
	case "repl":
		cmd = exec.Command(bin)
		cmd.Stdin = strings.NewReader(script)
	case "eval":
		cmd = exec.Command(bin, "-eval", script)
		cmd.Stdin = strings.NewReader(stdin)
	default:
		panic(mode)
	}
	var buf bytes.Buffer
	cmd.Stdout, cmd.Stderr = &buf, &buf
	if err := cmd.Start(); err != nil {
		t.Fatalf("starting calc: %v", err)
	}
	var err error
	if !watchdog(binLimit, func() { err = cmd.Wait() }) {
		// a wall-clock budget hit is never a violation
		cmd.Process.Kill()
		fmt.Printf("INCONCLUSIVE: calc (%s mode) still running after %v on %q\n", mode, binLimit, clipS(script))
		os.Exit(2)
	}
	res := binRes{out: buf.String()}
	if err != nil {
		if ee, ok := err.(*exec.ExitError); ok {
			res.code = ee.ExitCode()
		} else {
			res.err = err
		}
	}
	return res
}

func shmDir() string {
	if st, err := os.Stat("/dev/shm"); err == nil && st.IsDir() {
		return "/dev/shm"
	}
	return os.TempDir()
}

func crashed(r binRes) bool {
	return r.code == 2 || r.code < 0 || strings.Contains(r.out, "panic:") || strings.Contains(r.out, "fatal error:") || strings.Contains(r.out, "goroutine 1 [")
}

// brokenStatements: statements that must be rejected as a whole although their
// beginning is valid and has a visible effect.
var breakers = []string{")", "1 +", "+ )", "\"open", "x = ", "if", "99999999999999999999", "$", "a b )", "[1, 2", "} }", "else 1", "\x00", "1 = 2", "for x <- ", "(a, 1) -> a"}

func c06BinaryNoExec(t *testing.T, rec *ev.Recorder, n int, seed int) {
	// one physical line longer than the buffers of line readers (4 KiB, 64 KiB), rejected as a whole
	for i, pad := range []int{4100, 65530, 65600, 70000 + seed%7*1000, 140000} {
		mark := fmt.Sprintf("LONG%d", i)
		for j, line := range []string{
			// (the text written is spelled in two halves, so that the echo of the source line in the error message does not hold it)
			fmt.Sprintf("write(\"LO\" + \"NG%d\")%swrite(\"LO\" + \"NG%d\") )", i, strings.Repeat(" ", pad), i),
			fmt.Sprintf("write(\"LO\" + \"NG%d\" + \"%s\") ]", i, strings.Repeat("x", pad)),
			fmt.Sprintf("zl = [%s1] write(\"LO\" + \"NG%d\") (", strings.Repeat("1, ", pad/3), i),
		} {
			if _, perr := parser.Parse(line); perr == nil {
				t.Fatalf("harness: long line %d/%d is accepted by the parser", i, j)
			}
			r := runCalc(t, "file", line+"\n", "")
			if crashed(r) {
				ev.Repro("C06", "binary", map[string]any{"mode": "file", "script": line + "\n"})
				t.Fatalf("file mode aborts on a rejected line of %d bytes:\n%s", len(line), clipS(lastLines(r.out, 6)))
			}
			if strings.Contains(stripEcho(r.out, mark), mark) {
				ev.Repro("C06", "binary", map[string]any{"mode": "file", "script": line + "\n"})
				t.Fatalf("file mode executes part of a rejected line of %d bytes (shape %d)", len(line), j)
			}
			rec.Case(fmt.Sprintf("B|long line %d shape %d", len(line), j), true, "binary-no-exec-long-line")
		}
	}
	for i := 0; i < n; i++ {
		brk := breakers[(i+seed)%len(breakers)]
		mark := fmt.Sprintf("EXEC%d", i)
		// one multi-line statement: the parser sees it as one input
		block := fmt.Sprintf("{\nwrite(\"%s\")\n%s\n}\n", mark, brk)
		line := fmt.Sprintf("write(\"%s\") %s", mark, brk)
		// only inputs the parser rejects as a whole are in the domain
		accepted := false
		for _, text := range []string{block, line} {
			why, hang, perr, _ := frontEnd(text)
			if hang || why != "" {
				ev.Repro("C06", "text", map[string]any{"src": text})
				t.Fatalf("%s\n  input %q", why, text)
			}
			accepted = accepted || perr == nil
		}
		if accepted {
			rec.Skip("breaker accepted by the parser")
			continue
		}
		for _, mode := range []string{"file", "repl"} {
			if mode == "repl" && !replSafe(block) {
				continue
			}
			r := runCalc(t, mode, block, "")
			if crashed(r) {
				ev.Repro("C06", "binary", map[string]any{"mode": mode, "script": block})
				t.Fatalf("%s mode aborts on %q:\n%s", mode, block, clipS(r.out))
			}
			if strings.Contains(stripEcho(r.out, mark), mark) {
				ev.Repro("C06", "binary", map[string]any{"mode": mode, "script": block})
				t.Fatalf("%s mode executes part of a rejected input %q:\n%s", mode, block, clipS(r.out))
			}
		}
		if strings.IndexByte(line, 0) >= 0 {
			rec.Case("B|"+block, true, "binary-no-exec")
			continue // a command line argument cannot hold a NUL byte
		}
		r := runCalc(t, "eval", line, "")
		if crashed(r) {
			ev.Repro("C06", "binary", map[string]any{"mode": "eval", "script": line})
			t.Fatalf("-eval aborts on %q:\n%s", line, clipS(r.out))
		}
		if strings.Contains(stripEcho(r.out, mark), mark) {
			ev.Repro("C06", "binary", map[string]any{"mode": "eval", "script": line})
			t.Fatalf("-eval executes part of a rejected input %q:\n%s", line, clipS(r.out))
		}
		rec.Case("B|"+block, true, "binary-no-exec")
	}
}

// replSafe tells whether text can be piped to the REPL: its line editor (the
// third-party readline) interprets control bytes as editing keys (NUL at the
// start of a line is its end-of-input signal, TAB is completion), which is
// terminal behaviour outside the listed properties. Lines of tens of kilobytes
// take it minutes.
func replSafe(s string) bool {
	// very long lines: the line editor handles a line in quadratic time
	for _, l := range strings.Split(s, "\n") {
		if len(l) > 2000 {
			return false
		}
	}
	for i := 0; i < len(s); i++ {
		if (s[i] < 0x20 && s[i] != '\n') || s[i] == 0x7f {
			return false
		}
	}
	return true
}

// stripEcho removes the lines of an error display that quote the input (they
// legitimately contain the marker as source text: write("EXECn")).
func stripEcho(out, mark string) string {
	return strings.ReplaceAll(out, "write(\""+mark+"\")", "")
}

func c06BinaryBombs(t *testing.T, rec *ev.Recorder, depths []int) {
	for _, depth := range depths {
		for shape := range nestShapes {
			src := nestBomb(shape, depth) + "\n"
			r := runCalc(t, "file", src, "")
			if crashed(r) {
				ev.Repro("C06", "bomb", map[string]any{"shape": shape, "depth": depth})
				t.Fatalf("nesting %q x %d aborts the interpreter (exit %d):\n%s", nestShapes[shape].name, depth, r.code, clipS(r.out))
			}
			rec.Case(fmt.Sprintf("bomb %s x %d", nestShapes[shape].name, depth), true, "binary-bomb")
		}
	}
}

func init() {
	replayers["C06"] = func(kind string, c json.RawMessage) string {
		switch kind {
		case "text":
			var v struct{ Src string }
			mustJSON(c, &v)
			why, _, _, _ := frontEnd(v.Src)
			if why != "" {
				return fmt.Sprintf("%s\n  input %q", why, clipS(v.Src))
			}
		case "bomb":
			var v struct{ Shape, Depth int }
			mustJSON(c, &v)
			r := runCalc(replayT, "file", nestBomb(v.Shape, v.Depth)+"\n", "")
			if crashed(r) {
				return fmt.Sprintf("nesting %q x %d aborts the interpreter:\n%s", nestShapes[v.Shape%len(nestShapes)].name, v.Depth, clipS(r.out))
			}
		case "binary":
			var v struct{ Mode, Script string }
			mustJSON(c, &v)
			r := runCalc(replayT, v.Mode, v.Script, "")
			if crashed(r) {
				return fmt.Sprintf("%s mode aborts on %q:\n%s", v.Mode, v.Script, clipS(r.out))
			}
			if m := regexp.MustCompile(`EXEC[0-9]+`).FindString(v.Script); m != "" && strings.Contains(stripEcho(r.out, m), m) {
				return fmt.Sprintf("%s mode executes part of a rejected input %q:\n%s", v.Mode, v.Script, clipS(r.out))
			}
		}
		return ""
	}
}

// replayT lets replayers use helpers that need a testing.TB.
var replayT testing.TB

func TestC06(t *testing.T) {
	replayT = t
	if replayMode(t, "C06") {
		return
	}
	rec := ev.New("C06", c06Rule,
		"termination is decided by a 10 s watchdog per input (normal: microseconds) plus a deterministic bound of 4*len+8 tokens on the lexer",
		"in-process inputs are at most a few KiB; deeper nesting goes through the built binary because a host stack overflow cannot be recovered in process")
	rec.Extra["regression_cases"] = runRegressions(t, "C06")
	defer finish(t, rec)
	seed := envInt("VERIF_SEED", 1)
	if os.Getenv("VERIF_SHARD") == "" || os.Getenv("VERIF_SHARD") == "0" {
		c06BinaryNoExec(t, rec, 16*tierScale(), seed)
		if tierScale() > 1 {
			c06BinaryBombs(t, rec, []int{10000, 100000, 1000000})
		} else {
			c06BinaryBombs(t, rec, []int{400000})
		}
	}
	rapid.Check(t, c06Prop(rec))
}

// FuzzC06 is the coverage-guided leg on raw bytes (thorough tier only).
func FuzzC06(f *testing.F) {
	for _, s := range []string{"1+2", "f = (a) -> {\n a + 1\n}\n", "for i <- fromto(1, 3) write(i)", "\"abc", "[1,\n2]", "if true 1 else 2 ; c"} {
		f.Add([]byte(s))
	}
	f.Fuzz(func(t *testing.T, b []byte) {
		if len(b) > 2048 {
			return
		}
		src := string(b)
		why, hang, _, _ := frontEnd(src)
		if hang || why != "" {
			ev.Repro("C06", "text", map[string]any{"src": src})
			t.Fatalf("%s\n  input %q", why, src)
		}
	})
}
