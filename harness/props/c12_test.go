package props

import (
	"encoding/json"
	"fmt"
	"sort"
	"strings"
	"testing"

	"pgregory.net/rapid"

	"verif/harness/ev"
	"verif/harness/gen"
	"verif/harness/ref"
	"verif/harness/run"
)

// C12 An expression means the same wherever it is written.
//
// Metamorphic, on the real pipeline only: one expression or statement S is
// placed in many syntactic positions that merely select a different
// code-generation strategy; every placement must agree on value (where the
// position observes it), written output and error class.

const c12Rule = "S = a typed expression (depth 1-5) or statement from gen.G, or an ill-typed / failing snippet, in a small environment (globals, functions); embedded as statement, assignment, list element, call argument, parenthesised, operand at depth 1-3, if / if-else / negated-if body, one-iteration while and for body, function tail, non-tail, return operand, block first (discarded) and last; plus the pair rewrites of the property (x = x + 1 forms, e op e vs t op t, negated conditions); " +
	"non-trivial = S holds an operator nest >= 2, a call or a control statement, and at least 8 embeddings ran; distinct by S and environment text"

type embOutcome struct {
	val string // rendering of the value, "<none>" when the position does not observe it
	err ref.ErrClass
	out string
}

func (o embOutcome) String() string {
	return fmt.Sprintf("value %s error %q output %q", clipS(o.val), o.err, clipS(o.out))
}

// overBudget runs pre + stmts on the reference first and reports whether it gave
// up on its step or value-size budget (a generated loop that doubles a string is
// cheap in steps and unbounded in memory): such cases are skipped and counted.
func overBudget(pre, stmts []string) bool {
	rf := ref.New()
	rf.MaxSize = 20000 // the placements repeat the computation up to a few hundred times and keep the results
	for _, group := range [][]string{pre, stmts} {
		for _, st := range group {
			rr, perr := rf.RunStmt(strings.TrimPrefix(st, "\x01"))
			if perr != nil {
				return false
			}
			if rr.Lim {
				return true
			}
			if rr.Amb != "" || rr.Exit {
				// the reference stopped half way; its budget says nothing about the rest
				return false
			}
		}
	}
	return false
}

// runEmbedding runs pre + stmts on a fresh session; the outcome is that of stmts.
func runEmbedding(pre, stmts []string) (o embOutcome, internal string) {
	s := run.NewSession()
	for _, p := range pre {
		r := s.Run(p, false, 2000000)
		if r.Panic != "" || r.ParseErr != nil || r.Lim {
			return o, "prelude: " + firstLine(r.Panic) + fmt.Sprint(r.ParseErr)
		}
	}
	var last run.Res
	for _, st := range stmts {
		// a statement marked with a leading \x01 is expected to fail; the session carries on
		tolerate := strings.HasPrefix(st, "\x01")
		st = strings.TrimPrefix(st, "\x01")
		last = s.Run(st, false, 2000000)
		switch {
		case last.Panic != "":
			return embOutcome{val: "ABORT " + firstLine(last.Panic)}, ""
		case last.ParseErr != nil:
			return o, "embedding does not parse: " + last.ParseErr.Error() + " in " + st
		case last.Lim:
			return o, "step limit"
		case last.CompileErr != nil:
			return o, "refused"
		}
		if tolerate && last.Panic == "" {
			continue
		}
		o.out += last.Written()
		if last.Err != "" {
			o.err = last.Err
			return o, ""
		}
		if last.Resid != "" {
			return embOutcome{val: "RESIDUE " + last.Resid}, ""
		}
	}
	o.val = ref.Str(last.Val)
	return o, ""
}

type c12Case struct {
	Pre  []string `json:"pre"`
	S    string   `json:"s"`
	Stmt bool     `json:"stmt"` // S is a statement (cannot be used as an operand)
	Typ  string   `json:"typ"`
}

// embeddings returns the value-observing and the discarding placements of S.
func embeddings(c c12Case) (value, discard map[string][]string) {
	e := c.S
	value = map[string][]string{
		"plain":      {e},
		"if":         {"if true {\n" + e + "\n}"},
		"ifelse":     {"if true {\n" + e + "\n} else 0"},
		"ifnot":      {"if !true 0 else {\n" + e + "\n}"},
		"ifelse2":    {"if false 0 else {\n" + e + "\n}"},
		"tail":       {"zzwrap = () -> {\n" + e + "\n}", "zzwrap()"},
		"tailblock":  {"zzwrap = () -> {\n0\n" + e + "\n}", "zzwrap()"},
		"blocklast":  {"{\n0\n" + e + "\n}"},
		"for":        {"for once <- fromto(0, 1) {\n" + e + "\n}"},
		"while":      {"{\nzzw = 0\nwhile zzw < 1 {\nzzw = zzw + 1\n" + e + "\n}\n}"},
		"whilefn":    {"zzwrap = () -> {\nzzw = 0\nwhile zzw < 1 {\nzzw = zzw + 1\n" + e + "\n}\n}", "zzwrap()"},
		"forfn":      {"zzwrap = () -> for once <- fromto(0, 1) {\n" + e + "\n}", "zzwrap()"},
		"iftail":     {"zzwrap = (c) -> if c {\n" + e + "\n}", "zzwrap(true)"},
		"ifelsetail": {"zzwrap = (c) -> if c 0 else {\n" + e + "\n}", "zzwrap(false)"},
	}
	if c.Stmt && (strings.Contains(e, " = ") || strings.Contains(e, "for ")) {
		// moving an assignment into a function changes what it assigns (a local
		// instead of the global) and how later reads resolve: not the same program
		for _, k := range []string{"tail", "tailblock", "whilefn", "forfn", "iftail", "ifelsetail"} {
			delete(value, k)
		}
	}
	if !c.Stmt {
		for k, v := range map[string][]string{
			"paren":     {"(" + e + ")"},
			"assign":    {"zzx = " + e, "zzx"},
			"assignfn":  {"zzwrap = () -> {\nzzx = " + e + "\nzzx\n}", "zzwrap()"},
			"list":      {"[" + e + "][0]"},
			"listlater": {"[0, " + e + "][1]"},
			"arg":       {"id(" + e + ")"},
			"argsecond": {"zzsnd = (a, b) -> b", "zzsnd(0, " + e + ")"},
			"nontail":   {"zzwrap = () -> {\nr = [" + e + "]\nr[0]\n}", "zzwrap()"},
			"ret":       {"zzwrap = () -> {\nreturn " + e + "\n0\n}", "zzwrap()"},
			"topret":    {"return " + e},
			"deeper":    {"[[" + e + "]][0][0]"},
			"yield":     {"yield " + e},
			"viaelems":  {"for once <- elems([0]) {\n" + e + "\n}"},
		} {
			value[k] = v
		}
		switch c.Typ {
		case "int":
			value["operand1"] = []string{"0 + (" + e + ")"}
			value["operand2"] = []string{"((" + e + ") + 0) * 1"}
			value["operand3"] = []string{"(0 + ((" + e + ") * 1 - 0)) | 0"}
			value["index"] = []string{"[" + e + "][(0 + 0) * 1]"}
		case "float":
			// (multiplying by one and subtracting zero keep every float, the sign of zero and NaN included)
			value["operand1"] = []string{"1 * (" + e + ")"}
			value["operand2"] = []string{"((" + e + ") - 0) * 1"}
			value["operand3"] = []string{"1 * (1 * ((" + e + ") * 1))"}
		case "bool":
			value["operand1"] = []string{"(" + e + ") & true"}
			value["operand2"] = []string{"((" + e + ") | false) && true"}
			value["cond"] = []string{"if " + e + " true else false"}
			value["notcond"] = []string{"if !(" + e + ") false else true"}
		case "string":
			value["operand1"] = []string{"\"\" + (" + e + ")"}
			value["operand2"] = []string{"(\"\" + (" + e + ")) + \"\""}
		case "array":
			value["operand1"] = []string{"[] + (" + e + ")"}
			value["operand2"] = []string{"([] + (" + e + ")) + []"}
		}
	}
	discard = map[string][]string{
		"first":    {"{\n" + e + "\n0\n}"},
		"fnfirst":  {"zzwrap = () -> {\n" + e + "\n0\n}", "zzwrap()"},
		"loopbody": {"{\nzzw = 0\nwhile zzw < 1 {\n" + e + "\nzzw = zzw + 1\n}\n0\n}"},
		"forbody":  {"{\nfor once <- fromto(0, 1) {\n" + e + "\n0\n}\n0\n}"},
		"ifbody":   {"{\nif true {\n" + e + "\n}\n0\n}"},
	}
	if c.Stmt && (strings.Contains(e, " = ") || strings.Contains(e, "for ")) {
		delete(discard, "fnfirst")
	}
	return
}

// c12Check runs all placements of a case; it returns "" or the disagreement,
// and the number of placements compared.
func c12Check(c c12Case) (why string, ran int, skip string) {
	value, discard := embeddings(c)
	if overBudget(c.Pre, value["plain"]) {
		return "", 0, "reference budget"
	}
	base, internal := runEmbedding(c.Pre, value["plain"])
	if internal != "" {
		return "", 0, internal
	}
	if strings.HasPrefix(base.val, "ABORT") || strings.HasPrefix(base.val, "RESIDUE") {
		return "as a statement: " + base.val, 1, ""
	}
	names := []string{}
	for k := range value {
		names = append(names, k)
	}
	sort.Strings(names)
	for _, name := range names {
		got, internal := runEmbedding(c.Pre, value[name])
		if internal != "" {
			continue
		}
		ran++
		// assigning an absent value is an error by definition: not the same program
		if (name == "assign" || name == "assignfn") && base.err == "" && base.val == "nil" {
			continue
		}
		// operators over an absent value are errors too
		if strings.HasPrefix(name, "operand") || name == "index" || name == "cond" || name == "notcond" {
			if base.err == "" && base.val == "nil" {
				continue
			}
		}
		if name == "cond" || name == "notcond" {
			// as a condition a leading negation is folded into the jump: an absent operand fails as the
			// condition (type error) instead of as the operand of the negation (nil error); the class is open
			if sameOutcome(got, base, "negated-cond") {
				continue
			}
		}
		if got != base {
			return fmt.Sprintf("as a statement: %v\nembedded as %q: %v\n%s", base, name, got, strings.Join(value[name], "\n")), ran, ""
		}
	}
	dn := []string{}
	for k := range discard {
		dn = append(dn, k)
	}
	sort.Strings(dn)
	for _, name := range dn {
		got, internal := runEmbedding(c.Pre, discard[name])
		if internal != "" {
			continue
		}
		ran++
		if got.err != base.err || got.out != base.out || strings.HasPrefix(got.val, "ABORT") || strings.HasPrefix(got.val, "RESIDUE") {
			return fmt.Sprintf("as a statement: %v\ndiscarded in %q: %v\n%s", base, name, got, strings.Join(discard[name], "\n")), ran, ""
		}
	}
	return "", ran, ""
}

// pair rewrites: each entry is a list of statement lists that must end with the same outcome
func c12Pairs(t *rapid.T, g *gen.G) (groups [][][]string, label string) {
	switch rapid.IntRange(0, 6).Draw(t, "pair") {
	case 5, 6:
		// an operator applied to two expressions, and to the same expressions evaluated into
		// temporaries first (same order): what the callee of a call operand does with the
		// machine's registers must not matter
		typ := rapid.SampledFrom([]string{"int", "float", "bool", "string", "array", "string", "array"}).Draw(t, "typ")
		l := g.ExprOf(typ, rapid.IntRange(0, 3).Draw(t, "dl"))
		r := g.ExprOf(typ, rapid.IntRange(0, 3).Draw(t, "dr"))
		if inner := map[string][]string{"int": {"+", "*", "-"}, "float": {"+", "*"}, "string": {"+"}, "array": {"+"}}[typ]; inner != nil && rapid.IntRange(0, 2).Draw(t, "near") == 0 {
			// operands that are nearly the same tree: equal, mirrored, or differing in one leaf
			// (what a common-subexpression shortcut has to tell apart)
			a, b, c2 := g.ExprOf(typ, rapid.IntRange(0, 1).Draw(t, "da")), g.ExprOf(typ, rapid.IntRange(0, 1).Draw(t, "db")), g.ExprOf(typ, 0)
			io := rapid.SampledFrom(inner).Draw(t, "innerop")
			l = "(" + a + ") " + io + " (" + b + ")"
			r = rapid.SampledFrom([]string{"(" + b + ") " + io + " (" + a + ")", "(" + a + ") " + io + " (" + b + ")", "(" + a + ") " + io + " (" + c2 + ")", "(" + c2 + ") " + io + " (" + a + ")"}).Draw(t, "mirror")
		}
		op := map[string][]string{"int": {"+", "*", "-", "&", "|", "==", "<", "/", "%"}, "float": {"+", "*", "-", "==", "<=", "/"}, "bool": {"&", "|", "==", "!="}, "string": {"+", "==", "+"}, "array": {"+", "==", "!=", "+"}}[typ]
		o := rapid.SampledFrom(op).Draw(t, "op")
		tail := rapid.SampledFrom([]string{"", "", " == zznever", " != zznever"}).Draw(t, "tail")
		wrap := func(x string) string {
			if tail == "" {
				return x
			}
			return "(" + x + ")" + tail
		}
		return [][][]string{
			{{"zznever = [[]]", wrap("(" + l + ") " + o + " (" + r + ")")}},
			{{"zznever = [[]]", "zzl = [" + l + "]", "zzr = [" + r + "]", wrap("zzl[0] " + o + " zzr[0]")}},
			{{"zznever = [[]]", "zzl = [" + l + "]", wrap("zzl[0] " + o + " (" + r + ")")}},
			{{"zznever = [[]]", "zzwrap = () -> {\nzzl = [" + l + "]\nzzr = [" + r + "]\n" + wrap("zzl[0] "+o+" zzr[0]") + "\n}", "zzwrap()"}},
			{{"zznever = [[]]", "zzwrap = () -> " + wrap("("+l+") "+o+" ("+r+")"), "zzwrap()"}},
		}, "split"
	case 4:
		// the same sum spelled directly and through a temporary, observed by a type-sensitive use
		e := g.ExprOf("int", rapid.IntRange(0, 2).Draw(t, "d"))
		k := rapid.SampledFrom([]string{"1.0", "1", "2", "0.5", "2.0"}).Draw(t, "k")
		use := rapid.SampledFrom([]string{"zzx / 3", "[zzx / 2, zzx * 3]", "zzx % 2", "[1, 2, 3][zzx & 1]", "toa(zzx / 4)"}).Draw(t, "use")
		return [][][]string{
			{{"zzx = " + e, "zzx = zzx + " + k, use}},
			{{"zzx = " + e, "zzx = " + k + " + zzx", use}},
			{{"zzx = " + e, "zzt = zzx", "zzx = zzt + " + k, use}},
			{{"zzwrap = () -> {\nzzx = " + e + "\nzzx = zzx + " + k + "\n" + use + "\n}", "zzwrap()"}},
			{{"zzwrap = (zzx) -> {\nzzx = " + k + " + zzx\n" + use + "\n}", "zzwrap(" + e + ")"}},
		}, "increment-typed"
	case 0:
		e := g.ExprOf("int", rapid.IntRange(0, 2).Draw(t, "d"))
		return [][][]string{
			{{"zzx = " + e, "zzx = zzx + 1", "zzx"}},
			{{"zzx = " + e, "zzx = 1 + zzx", "zzx"}},
			{{"zzx = " + e, "zzt = zzx", "zzx = zzt + 1", "zzx"}},
			{{"zzwrap = () -> {\nzzx = " + e + "\nzzx = zzx + 1\nzzx\n}", "zzwrap()"}},
			{{"zzwrap = () -> {\nzzx = " + e + "\nzzx = 1 + zzx\n}", "zzwrap()"}},
			{{"zzwrap = (zzx) -> {\nzzx = 1 + zzx\nzzx\n}", "zzwrap(" + e + ")"}},
		}, "increment"
	case 1:
		// e op e vs t = e; t op t, for a call-free e
		typ := rapid.SampledFrom([]string{"int", "float", "bool", "string", "array"}).Draw(t, "typ")
		e := g.ExprOf(typ, rapid.IntRange(0, 2).Draw(t, "d"))
		if strings.Contains(e, "(") && strings.ContainsAny(e, "abcdefghijklmnopqrstuvwxyz") && hasCall(e) {
			e = map[string]string{"int": "3 + 4", "float": "1.5 * 2", "bool": "true", "string": "\"ab\"", "array": "[1] + [2]"}[typ]
		}
		op := map[string][]string{"int": {"+", "*", "-", "&", "==", "<", "/"}, "float": {"+", "*", "==", "<="}, "bool": {"&", "|", "==", "&&"}, "string": {"+", "=="}, "array": {"+", "==", "!="}}[typ]
		o := rapid.SampledFrom(op).Draw(t, "op")
		return [][][]string{
			{{"(" + e + ") " + o + " (" + e + ")"}},
			{{"zzt = " + e, "zzt " + o + " zzt"}},
			{{"zzwrap = () -> {\nzzt = " + e + "\nzzt " + o + " zzt\n}", "zzwrap()"}},
			{{"0 == 1 | (" + e + ") " + o + " (" + e + ") == ((" + e + ") " + o + " (" + e + "))"}, {"true"}},
		}[:3], "same-operand"
	case 2:
		c := g.ExprOf("bool", rapid.IntRange(0, 2).Draw(t, "d"))
		a, _ := g.Expr(1)
		b, _ := g.Expr(1)
		// (the condition goes through a list, not an assignment: a generated function may
		// return nothing, and assigning nil is an error of its own)
		return [][][]string{
			{{"if !(" + c + ") {\n" + a + "\n} else {\n" + b + "\n}"}},
			{{"if " + c + " {\n" + b + "\n} else {\n" + a + "\n}"}},
			{{"zzc = [" + c + "]", "if !zzc[0] {\n" + a + "\n} else {\n" + b + "\n}"}},
			{{"zzwrap = () -> if !(" + c + ") {\n" + a + "\n} else {\n" + b + "\n}", "zzwrap()"}},
		}, "negated-if"
	default:
		k := rapid.IntRange(0, 3).Draw(t, "k")
		body, _ := g.Expr(1)
		return [][][]string{
			{{"zzw = 0", fmt.Sprintf("while !(zzw >= %d) {\nzzw = zzw + 1\n%s\n}", k, body)}},
			{{"zzw = 0", fmt.Sprintf("while (zzw >= %d) == false {\nzzw = zzw + 1\n%s\n}", k, body)}},
			{{"zzw = 0", fmt.Sprintf("while zzw < %d {\nzzw = zzw + 1\n%s\n}", k, body)}},
		}, "negated-while"
	}
}

func hasCall(e string) bool {
	for i := 1; i < len(e); i++ {
		if e[i] == '(' && e[i-1] >= 'a' && e[i-1] <= 'z' {
			return true
		}
	}
	return false
}

// sameOutcome compares two outcomes. In the negated-condition rewrites a
// condition that is absent (nil) fails as the operand of the negation in one
// spelling (nil error) and as the condition itself in the other (type error):
// the description leaves that class open (the reference accepts both, see
// ref.condNode), so the two classes count as the same failure there.
func sameOutcome(a, b embOutcome, label string) bool {
	if a == b {
		return true
	}
	if strings.HasPrefix(label, "negated-") && a.out == b.out && a.val == b.val {
		open := map[ref.ErrClass]bool{ref.ENil: true, ref.EType: true}
		return open[a.err] && open[b.err]
	}
	return false
}

func pairCheck(pre []string, groups [][][]string, label string) (string, string) {
	var base embOutcome
	if len(groups) > 0 && overBudget(pre, groups[0][0]) {
		return "", "reference budget"
	}
	for i, grp := range groups {
		got, internal := runEmbedding(pre, grp[0])
		if internal != "" {
			return "", internal
		}
		if strings.HasPrefix(got.val, "ABORT") || strings.HasPrefix(got.val, "RESIDUE") {
			return fmt.Sprintf("%v\n%s", got, strings.Join(grp[0], "\n")), ""
		}
		if i == 0 {
			base = got
			continue
		}
		if !sameOutcome(got, base, label) {
			return fmt.Sprintf("form 0: %v\n%s\nform %d: %v\n%s", base, strings.Join(groups[0][0], "\n"), i, got, strings.Join(grp[0], "\n")), ""
		}
	}
	return "", ""
}

var c12Failing = []string{"1 + \"a\"", "nothingx", "1 / 0", "[1][3]", "id(1, 2)", "nothingx + 1", "aton(\"x\")", "#5", "1 % 0", "nothingx()", "[1][nothingx]", "-\"s\"", "!3", "~1.5", "\"s\"[0:9]", "(nothingx + (1 / 0)) * 2", "[nothingx][0] + 1"}
var c12FailingStmts = []string{"if 1 5", "if nothingx 1", "while 1 2", "zzq = nothingx", "if !1 5", "if \"s\" 1 else 2", "for zzv <- nothingx() 1", "while !nothingx 1"}

func c12Prop(rec *ev.Recorder) func(t *rapid.T) {
	return func(t *rapid.T) {
		g := &gen.G{T: t}
		pre := g.Environment(rapid.IntRange(1, 4).Draw(t, "globals"), rapid.IntRange(0, 2).Draw(t, "funcs"))
		if rapid.IntRange(0, 4).Draw(t, "what") == 0 {
			groups, label := c12Pairs(t, g)
			why, internal := pairCheck(pre, groups, label)
			if internal != "" {
				rec.Skip("pair: " + strings.SplitN(internal, ":", 2)[0])
				return
			}
			if why != "" {
				fail(t, "C12", "pair", map[string]any{"pre": pre, "groups": groups, "label": label}, "%s: %s\n--- environment\n%s", label, why, strings.Join(pre, "\n"))
			}
			rec.Case(label+"|"+fmt.Sprint(groups)+"|"+strings.Join(pre, "\n"), true, "pair:"+label)
			return
		}
		c := c12Case{Pre: pre}
		switch rapid.IntRange(0, 11).Draw(t, "skind") {
		case 11:
			// a float and a run of integer constants: every intermediate sum rounds, so the
			// constants cannot be combined; the same text must round the same way in every position
			f := rapid.SampledFrom([]string{"9007199254740992.0", "9007199254740993.0", "4503599627370497.5", "0.559", "0.1", "0.7", "1.1", "zzbig", "zzfrac", "(0.0 - 9007199254740992.0)", "2.5"}).Draw(t, "float")
			op := rapid.SampledFrom([]string{"+", "-"}).Draw(t, "chainop")
			c.Pre = append(c.Pre, "zzbig = 9007199254740992.0", "zzfrac = 0.559")
			c.S, c.Typ = f, "float"
			for n := rapid.IntRange(2, 4).Draw(t, "consts"); n > 0; n-- {
				if rapid.IntRange(0, 5).Draw(t, "mixop") == 0 {
					op = map[string]string{"+": "-", "-": "+"}[op]
				}
				c.S += " " + op + " " + fmt.Sprint(rapid.IntRange(1, 9).Draw(t, "const"))
			}
		case 10:
			// negations of comparisons, over numbers that include NaN and infinities
			num := func() string {
				return rapid.SampledFrom([]string{"0", "1", "2", "(0 - 1)", "0.5", "1.0", "(0.0 / 0.0)", "(1.0 / 0.0)", "(0.0 - 1.0 / 0.0)", "zznan", "zzinf", "zzone"}).Draw(t, "num")
			}
			cmp := func() string {
				return num() + " " + rapid.SampledFrom([]string{"<", "<=", ">", ">=", "==", "!="}).Draw(t, "cmp") + " " + num()
			}
			c.Pre = append(c.Pre, "zznan = 0.0 / 0.0", "zzinf = 1.0 / 0.0", "zzone = 1")
			c.Typ = "bool"
			switch rapid.IntRange(0, 4).Draw(t, "negform") {
			case 0:
				c.S = "!(" + cmp() + ")"
			case 1:
				c.S = "!(!(" + cmp() + "))"
			case 2:
				c.S = "!(" + cmp() + ") & " + "(" + cmp() + ")"
			case 3:
				c.S = "(" + cmp() + ") | !(" + cmp() + ")"
			default:
				c.S = "!(" + cmp() + ") == (" + cmp() + ")"
			}
		case 0:
			c.S, c.Typ = rapid.SampledFrom(c12Failing).Draw(t, "failing"), "any"
		case 1:
			c.S, c.Stmt = rapid.SampledFrom(c12FailingStmts).Draw(t, "failingstmt"), true
		case 2, 3:
			c.S, c.Stmt = g.Stmt(rapid.IntRange(1, 3).Draw(t, "d")), true
			if strings.Contains(c.S, "zz") {
				c.S = "if true 1"
			}
		default:
			c.S, c.Typ = g.Expr(rapid.IntRange(1, 5).Draw(t, "d"))
		}
		why, ran, skip := c12Check(c)
		if skip != "" {
			rec.Skip(strings.SplitN(skip, ":", 2)[0])
			return
		}
		if why != "" {
			fail(t, "C12", "embed", c, "S = %s\n%s\n--- environment\n%s", c.S, why, strings.Join(pre, "\n"))
		}
		nt := ran >= 8 && (c.Stmt || hasCall(c.S) || strings.Count(c.S, " ") >= 4)
		rec.Count("placements", ran)
		rec.Case(c.S+"|"+strings.Join(pre, "\n"), nt, fmt.Sprintf("stmt:%v", c.Stmt))
	}
}

func init() {
	replayers["C12"] = func(kind string, c json.RawMessage) string {
		switch kind {
		case "embed":
			var v c12Case
			mustJSON(c, &v)
			why, _, _ := c12Check(v)
			return why
		case "pair":
			var v struct {
				Pre    []string
				Groups [][][]string
				Label  string
			}
			mustJSON(c, &v)
			why, _ := pairCheck(v.Pre, v.Groups, v.Label)
			return why
		}
		return ""
	}
}

func TestC12(t *testing.T) {
	if replayMode(t, "C12") {
		return
	}
	rec := ev.New("C12", c12Rule,
		"metamorphic on the implementation only: no reference involved, the placements must agree with each other",
		"placements that change the program by definition are excluded: assigning or operating on an absent (nil) value is an error while evaluating it as a statement is not")
	rec.Extra["regression_cases"] = runRegressions(t, "C12")
	defer finish(t, rec)
	rapid.Check(t, c12Prop(rec))
}
