package props

import (
	"fmt"
	"regexp"
	"strconv"
	"strings"

	"github.com/paulsonkoly/calc/types/bytecode"

	"verif/harness/ref"
)

// Parsing and checking of the VM's runtime error report against the
// reference's report model (C19).

type vmReport struct {
	msg    string
	opcode string
	vals   string
	ctxs   [][]ref.RepFrame
	marks  int
}

var reArrow = regexp.MustCompile(`^--> (\d+): 0X[0-9A-F]+ : ([A-Z0-9]+) ?([^;]*); ?(.*)$`)
var reIP = regexp.MustCompile(`^IP: (\d+) ([a-z]*)\(\) args: ?(.*)$`)
var reArg = regexp.MustCompile(`arg\[\d+\]: `)

func parseReport(out string) (*vmReport, error) {
	i := strings.Index(out, "RUNTIME ERROR : ")
	if i < 0 {
		return nil, fmt.Errorf("no report")
	}
	lines := strings.Split(out[i:], "\n")
	rep := &vmReport{msg: strings.TrimPrefix(lines[0], "RUNTIME ERROR : ")}
	var cur *[]ref.RepFrame
	for _, l := range lines[1:] {
		switch {
		case strings.HasPrefix(l, "--> "):
			m := reArrow.FindStringSubmatch(l)
			if m == nil {
				return nil, fmt.Errorf("bad marked line %q", l)
			}
			rep.marks++
			rep.opcode = m[2]
			rep.vals = m[4]
		case strings.HasPrefix(l, "memory context "):
			rep.ctxs = append(rep.ctxs, []ref.RepFrame{})
			cur = &rep.ctxs[len(rep.ctxs)-1]
		case strings.HasPrefix(l, "IP: "):
			m := reIP.FindStringSubmatch(l)
			if m == nil || cur == nil {
				return nil, fmt.Errorf("bad call line %q", l)
			}
			rf := ref.RepFrame{Name: m[2]}
			if m[3] != "" {
				parts := reArg.Split(m[3], -1)
				for _, p := range parts[1:] {
					rf.Args = append(rf.Args, strings.TrimSuffix(p, " "))
				}
			}
			*cur = append(*cur, rf)
		case strings.Contains(l, "giving up"):
			return nil, fmt.Errorf("report gave up: %s", l)
		}
	}
	return rep, nil
}

// opcodes a failing operation may be reported under
var opFamilies = map[string][]string{
	"+": {"ADD", "ADDTMP", "INC"}, "-": {"SUB", "SUBTMP", "MUL", "MULTMP"}, "*": {"MUL", "MULTMP"}, "/": {"DIV", "DIVTMP"}, "%": {"MOD", "MODTMP"},
	"&": {"AND", "ANDTMP"}, "&&": {"AND", "ANDTMP"}, "|": {"OR", "ORTMP"}, "||": {"OR", "ORTMP"},
	"<": {"LT", "LTTMP"}, ">": {"GT", "GTTMP"}, "<=": {"LE", "LETMP"}, ">=": {"GE", "GETMP"},
	"==": {"EQ", "EQTMP", "NE", "NETMP"}, "!=": {"NE", "NETMP"}, "<<": {"LSH", "LSHTMP"}, ">>": {"RSH", "RSHTMP"},
	"#": {"LEN", "LENTMP"}, "!": {"NOT", "NOTTMP", "JMPF", "JMPT"}, "~": {"FLIP", "FLIPTMP"},
	"index": {"IX1", "IX2"}, "call": {"CALL"}, "cond": {"JMPF", "JMPT"}, "mov": {"MOV"}, "aton": {"ATON"}, "read": {"READ"},
}

// reportParseable tells whether the printed report can be split reliably:
// values are printed raw, so a string operand or argument holding a line break
// or the text "arg[" would be mistaken for report structure.
func reportParseable(want *ref.Report) bool {
	bad := func(s string) bool { return strings.ContainsAny(s, "\n;") || strings.Contains(s, "arg[") }
	for _, v := range want.Vals {
		if bad(v) {
			return false
		}
	}
	for _, c := range want.Ctxs {
		for _, f := range c {
			for _, a := range f.Args {
				if bad(a) {
					return false
				}
			}
		}
	}
	return true
}

// checkReport returns "" if the printed report matches the reference's model.
func checkReport(rr ref.Result, printed string) string {
	want := rr.Rep
	got, err := parseReport(printed)
	if err != nil {
		return err.Error()
	}
	if !rr.Err.Accepts(ref.ErrClass(got.msg)) && !(rr.Err.Class == ref.ERead && strings.HasPrefix(got.msg, "read error")) {
		return fmt.Sprintf("message %q want %q", got.msg, rr.Err.Class)
	}
	if got.marks != 1 {
		return fmt.Sprintf("%d marked instructions", got.marks)
	}
	if why := checkListing(printed); why != "" {
		return why
	}
	fam, ok := opFamilies[want.Op]
	if !ok {
		return "unknown op " + want.Op
	}
	found := false
	for _, f := range fam {
		if f == got.opcode {
			found = true
		}
	}
	if !found {
		return fmt.Sprintf("marked opcode %s is not in the family of %q", got.opcode, want.Op)
	}
	// operand values: the full list, or for accumulator forms / INC the explicit operand only
	full := strings.Join(want.Vals, ", ")
	okVals := got.vals == full
	if strings.HasSuffix(got.opcode, "TMP") && len(want.Vals) > 0 {
		if got.vals == want.Vals[len(want.Vals)-1] || (len(want.Vals) == 1 && got.vals == "") {
			okVals = true
		}
	}
	if got.opcode == "INC" && len(want.Vals) > 0 {
		okVals = got.vals == want.Vals[0] || got.vals == want.Vals[len(want.Vals)-1]
	}
	if want.Op == "-" && len(want.Vals) == 2 && (got.opcode == "MUL" || got.opcode == "MULTMP") {
		// unary minus is -1 * x
		okVals = got.vals == full || got.vals == want.Vals[1]
	}
	if want.Op == "cond" && (got.opcode == "JMPF" || got.opcode == "JMPT") {
		okVals = got.vals == full
	}
	if want.Op == "read" {
		okVals = true
	}
	if !okVals {
		return fmt.Sprintf("operands %q want %q", got.vals, full)
	}
	if len(got.ctxs) != len(want.Ctxs) {
		return fmt.Sprintf("%d memory contexts want %d", len(got.ctxs), len(want.Ctxs))
	}
	for i := range want.Ctxs {
		if len(got.ctxs[i]) != len(want.Ctxs[i]) {
			return fmt.Sprintf("context %d: %d calls want %d (%v vs %v)", i, len(got.ctxs[i]), len(want.Ctxs[i]), got.ctxs[i], want.Ctxs[i])
		}
		for j := range want.Ctxs[i] {
			g, w := got.ctxs[i][j], want.Ctxs[i][j]
			if g.Name != w.Name || strings.Join(g.Args, "|") != strings.Join(w.Args, "|") {
				return fmt.Sprintf("context %d call %d: %v want %v", i, j, g, w)
			}
		}
	}
	return ""
}

var reListing = regexp.MustCompile(`^(?:-->|   ) *\d+: (0X[0-9A-F]{16}) : ([^;]*)`)

// checkListing: every line of the instruction window (the marked one included)
// prints the instruction word and its disassembly; the text has to be the
// instruction the VM executes, that is the opcode and operands the word decodes
// to through the accessors the VM itself uses.
func checkListing(printed string) string {
	i := strings.Index(printed, "RUNTIME ERROR : ")
	if i < 0 {
		return ""
	}
	for _, l := range strings.Split(printed[i:], "\n") {
		m := reListing.FindStringSubmatch(l)
		if m == nil {
			continue
		}
		w, err := strconv.ParseUint(m[1][2:], 16, 64)
		if err != nil {
			return fmt.Sprintf("bad instruction word in %q", l)
		}
		b := bytecode.Type(w)
		opnd := func(kind uint64, addr int) string {
			switch kind {
			case bytecode.AddrDS:
				return fmt.Sprintf("DS[%d] ", addr)
			case bytecode.AddrCls:
				return fmt.Sprintf("CLS[%d] ", addr)
			case bytecode.AddrLcl:
				return fmt.Sprintf("LCL[%d] ", addr)
			case bytecode.AddrGbl:
				return fmt.Sprintf("GBL[%d] ", addr)
			case bytecode.AddrStck:
				return "STCK "
			case bytecode.AddrTmp:
				return "TMP "
			case bytecode.AddrImm:
				return fmt.Sprintf("%d ", addr)
			}
			return ""
		}
		want := fmt.Sprintf("%v %s%s%s", b.OpCode(), opnd(b.Src2(), b.Src2Addr()), opnd(b.Src1(), b.Src1Addr()), opnd(b.Src0(), b.Src0Addr()))
		if strings.TrimSpace(m[2]) != strings.TrimSpace(want) {
			return fmt.Sprintf("listing line %q shows %q, the instruction word decodes to %q", l, strings.TrimSpace(m[2]), strings.TrimSpace(want))
		}
	}
	return ""
}
