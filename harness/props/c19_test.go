package props

import (
	"encoding/json"
	"fmt"
	"strings"
	"testing"

	"pgregory.net/rapid"

	"github.com/paulsonkoly/calc/parser"

	"verif/harness/ev"
	"verif/harness/gen"
)

// C19 Runtime error reports point at the real failure.
//
// Generated: failing sessions from the fault injector (every error class at
// every dynamic position, through named functions, parameters holding
// functions, closures, loop bodies, generators, nested contexts, with
// parameters reassigned before the failure) and typed sessions with ill-typed
// leaves. Oracle: the report model of the reference interpreter - error class,
// exactly one marked instruction whose opcode belongs to the failing
// operation, the operand values it saw, one memory context section per
// coroutine from the failing one up to main, in each the active calls
// innermost first with the call-site names and the current parameter values.

const c19Rule = "sessions from gen.FaultGen (17 error classes x 16 dynamic positions) and from gen.G / gen.IterGen with failing statements; every RUNTIME ERROR report is parsed and compared with the reference's report model; " +
	"non-trivial = at least one compared report of a failure at call depth >= 2 or inside a generator; distinct by session text"

func c19Prop(rec *ev.Recorder) func(t *rapid.T) {
	return func(t *rapid.T) {
		var stmts []string
		deep := false
		text := ""
		switch rapid.IntRange(0, 5).Draw(t, "source") {
		case 0:
			g := &gen.G{T: t}
			stmts = g.Session()
			text = joinStmts(stmts)
			deep = strings.Contains(text, "->")
		case 1:
			g := &gen.IterGen{T: t}
			stmts = append(append([]string{}, gen.IterPrelude...), g.Session()...)
			// make something fail inside the pipelines
			stmts = append(stmts, "for v <- map((e) -> e + nothingx, () -> filter(isev, () -> count(\"z\", 4))) v",
				"for a, b <- rgen(3), map((e) -> [1][e], () -> fromto(0, 3)) a + b")
			text = joinStmts(stmts[len(gen.IterPrelude):])
			deep = true
		default:
			g := &gen.FaultGen{T: t}
			fs := g.Session()
			big := -1
			if rapid.IntRange(0, 19).Draw(t, "oversized") == 0 {
				// a statement refused by the compiler in the middle of the session
				big = rapid.IntRange(len(gen.FaultPrelude), len(fs.Real)-1).Draw(t, "at")
			}
			for i, s := range fs.Real {
				if i == big {
					stmts = append(stmts, oversized(33000))
				}
				if _, perr := parser.Parse(s); perr == nil {
					stmts = append(stmts, s)
				}
			}
			text = fs.Text()
			deep = fs.Deep > 0
		}
		o := diffSession(stmts, diffOpts{checkReport: true})
		if o.bad() {
			fail(t, "C19", "session", map[string]any{"stmts": stmts}, "%s %s\n%s", o.kind, o.why, text)
		}
		if o.kind == "skip" {
			rec.Skip(o.why)
			rec.Case(text, false, "skipped")
			return
		}
		rec.Count("reports_compared", o.reports)
		rec.Count("statements_refused_by_the_compiler", o.refused)
		rec.Case(text, o.reports > 0 && deep, fmt.Sprintf("reports:%d", min(o.reports, 8)))
	}
}

func init() {
	replayers["C19"] = func(kind string, c json.RawMessage) string {
		var v struct{ Stmts []string }
		mustJSON(c, &v)
		if o := diffSession(v.Stmts, diffOpts{checkReport: true}); o.bad() {
			return fmt.Sprintf("%s %s\n%s", o.kind, o.why, joinStmts(v.Stmts))
		}
		return ""
	}
}

func TestC19(t *testing.T) {
	if replayMode(t, "C19") {
		return
	}
	rec := ev.New("C19", c19Rule,
		"the reference keeps, per coroutine, the active calls with the name used at the call site and the current parameter values, and records kind and operands of the failing operation",
		"for accumulator-form instructions (the ...TMP opcodes) only the explicit operand is printed, so only that one is compared; reports whose operand or argument values contain line breaks, ';' or 'arg[' are not compared (the printed form is ambiguous)")
	rec.Extra["regression_cases"] = runRegressions(t, "C19")
	defer finish(t, rec)
	rapid.Check(t, c19Prop(rec))
}
