package props

import (
	"fmt"
	"strings"

	"pgregory.net/rapid"

	"verif/harness/ev"
)

// letters spells n with letters only (variable names have no digits)
func letters(prefix string, n int) string {
	s := ""
	for {
		s = string(rune('a'+n%26)) + s
		n /= 26
		if n == 0 {
			break
		}
	}
	return prefix + s
}

// wideFrame builds a function with `width` locals holding base+i each, a
// probe of some of them after calling `between`, and returns their sum.
func wideFrameFn(name string, width, base int, between string, probes []int) (src string, want int) {
	var sb strings.Builder
	fmt.Fprintf(&sb, "%s = (n) -> {\n", name)
	for i := 0; i < width; i++ {
		fmt.Fprintf(&sb, "%s = n + %d\n", letters("u", i), base+i)
	}
	if between != "" {
		sb.WriteString(between + "\n")
	}
	terms := []string{}
	for _, p := range probes {
		terms = append(terms, letters("u", p%width))
		want += base + p%width
	}
	sb.WriteString(strings.Join(terms, " + ") + "\n}")
	return sb.String(), want
}

// slotsFn builds a function whose names are introduced by parameters,
// assignments (plain, in blocks, conditionals and loops), single and lock-step
// loop variables that may or may not exist already; every step writes fresh
// distinct values, and the function returns all its names. want is the value
// by construction.
func slotsFn(t *rapid.T) (src, call, want string) {
	pool := []string{"a", "b", "c", "d", "e", "f", "g", "h", "i", "j", "k", "l"}
	pool = pool[:rapid.IntRange(3, len(pool)).Draw(t, "names")]
	name := func() string { return rapid.SampledFrom(pool).Draw(t, "name") }
	val := map[string]int{}
	order := []string{}
	set := func(n string, v int) {
		if _, ok := val[n]; !ok {
			order = append(order, n)
		}
		val[n] = v
	}
	next := 100
	fresh := func() int { next += 7; return next }
	params, args := []string{}, []string{}
	for i := rapid.IntRange(0, 3).Draw(t, "params"); i > 0; i-- {
		n := name()
		if _, ok := val[n]; ok {
			continue
		}
		v := fresh()
		params, args = append(params, n), append(args, fmt.Sprint(v))
		set(n, v)
	}
	lines := []string{}
	for i := rapid.IntRange(2, 10).Draw(t, "steps"); i > 0; i-- {
		switch rapid.IntRange(0, 7).Draw(t, "step") {
		case 0, 1:
			n, v := name(), fresh()
			lines = append(lines, fmt.Sprintf("%s = %d", n, v))
			set(n, v)
		case 2:
			n, v := name(), fresh()
			lines = append(lines, fmt.Sprintf("if %d > 0 {\n%s = %d\n}", v, n, v))
			set(n, v)
		case 3:
			n, v := name(), fresh()
			lines = append(lines, fmt.Sprintf("for %s <- fromto(%d, %d) 0", n, v-2, v+1))
			set(n, v)
		case 4, 5: // lock-step loop, the body introduces or rewrites one more name
			k := rapid.IntRange(2, 3).Draw(t, "k")
			vs, its, seen := []string{}, []string{}, map[string]bool{}
			for len(vs) < k {
				n := name()
				if seen[n] {
					continue
				}
				seen[n] = true
				v := fresh()
				vs, its = append(vs, n), append(its, fmt.Sprintf("fromto(%d, %d)", v-1, v+1))
				set(n, v)
			}
			body := "0"
			if n := name(); !seen[n] {
				v := fresh()
				body = fmt.Sprintf("{\n%s = %d\n}", n, v)
				set(n, v)
			}
			lines = append(lines, "for "+strings.Join(vs, ", ")+" <- "+strings.Join(its, ", ")+" "+body)
		case 6:
			n, v := name(), fresh()
			w := "w" + letters("", len(lines))
			lines = append(lines, fmt.Sprintf("%s = 0\nwhile %s < 2 {\n%s = %d + %s\n%s = %s + 1\n}", w, w, n, v-1, w, w, w))
			set(n, v)
		default: // a closure over what exists so far is created and called in between
			if len(order) > 0 {
				n := rapid.SampledFrom(order).Draw(t, "captured")
				lines = append(lines, fmt.Sprintf("kk = () -> %s\nif kk() != %d return 0 - 1", n, val[n]))
			}
		}
	}
	res, wants := []string{}, []string{}
	for _, n := range order {
		res = append(res, n)
		wants = append(wants, fmt.Sprint(val[n]))
	}
	lines = append(lines, "["+strings.Join(res, ", ")+"]")
	return "slots = (" + strings.Join(params, ", ") + ") -> {\n" + strings.Join(lines, "\n") + "\n}",
		"slots(" + strings.Join(args, ", ") + ")", "[" + strings.Join(wants, ", ") + "]"
}

func c18ProgProp(rec *ev.Recorder) func(t *rapid.T) {
	return func(t *rapid.T) {
		scale := tierScale()
		depth := rapid.SampledFrom([]int{1, 40, 127, 128, 129, 500, 3000, 8000 * scale}).Draw(t, "depth")
		width := rapid.SampledFrom([]int{100, 126, 127, 128, 129, 200, 255, 256, 300, 400}).Draw(t, "width")
		base := rapid.IntRange(0, 1000).Draw(t, "base")
		nprobe := rapid.IntRange(1, 6).Draw(t, "nprobe")
		probes := []int{width - 1}
		for i := 0; i < nprobe; i++ {
			probes = append(probes, rapid.IntRange(0, width-1).Draw(t, "probe"))
		}
		arg := rapid.IntRange(0, 50).Draw(t, "arg")
		small := rapid.IntRange(1, 4).Draw(t, "small")
		stmts := []string{"deep = (n) -> if n <= 0 0 else 1 + deep(n - 1)"}
		var expect []string // closed-form value per statement ("" = only compared with the reference)
		expect = append(expect, "")
		switch rapid.IntRange(0, 5).Draw(t, "shape") {
		case 4, 5: // every name of a function has a slot of its own, however the name is introduced
			src, call, want := slotsFn(t)
			stmts = append(stmts, src, call, "["+call+", "+call+"]")
			expect = append(expect, "", want, "["+want+", "+want+"]")
		case 0: // wide frame survives a deep call made from inside it
			src, want := wideFrameFn("wide", width, base, fmt.Sprintf("deep(%d)", depth), probes)
			stmts = append(stmts, src, fmt.Sprintf("wide(%d)", arg))
			expect = append(expect, "", fmt.Sprint(want+arg*len(probes)))
		case 1: // deep recursion: limited by memory only
			stmts = append(stmts, fmt.Sprintf("deep(%d)", depth), fmt.Sprintf("deep(%d) + deep(%d)", depth, small))
			expect = append(expect, fmt.Sprint(depth), fmt.Sprint(depth+small))
		case 2: // a loop in a wide frame, its iterator reading a late local, after a small loop in the same statement
			last := letters("u", width-1)
			between := fmt.Sprintf("s = 0\nfor i <- fromto(0, %s - n - %d) s = s + i + %s", last, base+width-1-small, letters("u", probes[1]%width))
			src, want := wideFrameFn("wide", width, base, between, probes)
			stmts = append(stmts, src,
				fmt.Sprintf("{\nfor q <- fromto(0, %d) q\nwide(%d)\n}", small, arg),
				fmt.Sprintf("wide(%d)", arg))
			w := fmt.Sprint(want + arg*len(probes))
			expect = append(expect, "", w, w)
		default: // every level of a recursion has its own variables
			stmts = append(stmts,
				"rec = (n) -> {\nif n <= 0 return 0\nx = n * 3\ny = rec(n - 1)\nif x != n * 3 return 0 - 1000000\nx + y\n}",
				fmt.Sprintf("rec(%d)", min(depth, 3000*scale)))
			d := min(depth, 3000*scale)
			expect = append(expect, "", fmt.Sprint(3*d*(d+1)/2))
		}
		text := joinStmts(stmts)
		o := diffSession(stmts, diffOpts{})
		if o.bad() {
			fail(t, "C18", "session", map[string]any{"stmts": stmts}, "%s %s\n%s", o.kind, o.why, clipS(text))
		}
		if o.kind == "skip" {
			rec.Skip(o.why)
			return
		}
		// closed forms, independent of the reference
		if why := closedForms(stmts, expect); why != "" {
			fail(t, "C18", "session", map[string]any{"stmts": stmts}, "%s\n%s", why, clipS(text))
		}
		if o.maxDepth > recMax(rec, "max_recursion_depth") {
			rec.Extra["max_recursion_depth"] = o.maxDepth
		}
		rec.Case("P|"+text, true, "program")
	}
}
