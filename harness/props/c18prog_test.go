package props

import (
	"fmt"
	"strings"

	"pgregory.net/rapid"

	"verif/harness/ev"
)

// letters spells n with letters only (variable names have no digits)
func letters(prefix string, n int) string {
	s := ""
	for {
		s = string(rune('a'+n%26)) + s
		n /= 26
		if n == 0 {
			break
		}
	}
	return prefix + s
}

// wideFrame builds a function with `width` locals holding base+i each, a
// probe of some of them after calling `between`, and returns their sum.
func wideFrameFn(name string, width, base int, between string, probes []int) (src string, want int) {
	var sb strings.Builder
	fmt.Fprintf(&sb, "%s = (n) -> {\n", name)
	for i := 0; i < width; i++ {
		fmt.Fprintf(&sb, "%s = n + %d\n", letters("u", i), base+i)
	}
	if between != "" {
		sb.WriteString(between + "\n")
	}
	terms := []string{}
	for _, p := range probes {
		terms = append(terms, letters("u", p%width))
		want += base + p%width
	}
	sb.WriteString(strings.Join(terms, " + ") + "\n}")
	return sb.String(), want
}

func c18ProgProp(rec *ev.Recorder) func(t *rapid.T) {
	return func(t *rapid.T) {
		scale := tierScale()
		depth := rapid.SampledFrom([]int{1, 40, 127, 128, 129, 500, 3000, 8000 * scale}).Draw(t, "depth")
		width := rapid.SampledFrom([]int{100, 126, 127, 128, 129, 200, 255, 256, 300, 400}).Draw(t, "width")
		base := rapid.IntRange(0, 1000).Draw(t, "base")
		nprobe := rapid.IntRange(1, 6).Draw(t, "nprobe")
		probes := []int{width - 1}
		for i := 0; i < nprobe; i++ {
			probes = append(probes, rapid.IntRange(0, width-1).Draw(t, "probe"))
		}
		arg := rapid.IntRange(0, 50).Draw(t, "arg")
		small := rapid.IntRange(1, 4).Draw(t, "small")
		stmts := []string{"deep = (n) -> if n <= 0 0 else 1 + deep(n - 1)"}
		var expect []string // closed-form value per statement ("" = only compared with the reference)
		expect = append(expect, "")
		switch rapid.IntRange(0, 3).Draw(t, "shape") {
		case 0: // wide frame survives a deep call made from inside it
			src, want := wideFrameFn("wide", width, base, fmt.Sprintf("deep(%d)", depth), probes)
			stmts = append(stmts, src, fmt.Sprintf("wide(%d)", arg))
			expect = append(expect, "", fmt.Sprint(want+arg*len(probes)))
		case 1: // deep recursion: limited by memory only
			stmts = append(stmts, fmt.Sprintf("deep(%d)", depth), fmt.Sprintf("deep(%d) + deep(%d)", depth, small))
			expect = append(expect, fmt.Sprint(depth), fmt.Sprint(depth+small))
		case 2: // a loop in a wide frame, its iterator reading a late local, after a small loop in the same statement
			last := letters("u", width-1)
			between := fmt.Sprintf("s = 0\nfor i <- fromto(0, %s - n - %d) s = s + i + %s", last, base+width-1-small, letters("u", probes[1]%width))
			src, want := wideFrameFn("wide", width, base, between, probes)
			stmts = append(stmts, src,
				fmt.Sprintf("{\nfor q <- fromto(0, %d) q\nwide(%d)\n}", small, arg),
				fmt.Sprintf("wide(%d)", arg))
			w := fmt.Sprint(want + arg*len(probes))
			expect = append(expect, "", w, w)
		default: // every level of a recursion has its own variables
			stmts = append(stmts,
				"rec = (n) -> {\nif n <= 0 return 0\nx = n * 3\ny = rec(n - 1)\nif x != n * 3 return 0 - 1000000\nx + y\n}",
				fmt.Sprintf("rec(%d)", min(depth, 3000*scale)))
			d := min(depth, 3000*scale)
			expect = append(expect, "", fmt.Sprint(3*d*(d+1)/2))
		}
		text := joinStmts(stmts)
		o := diffSession(stmts, diffOpts{})
		if o.bad() {
			fail(t, "C18", "session", map[string]any{"stmts": stmts}, "%s %s\n%s", o.kind, o.why, clipS(text))
		}
		if o.kind == "skip" {
			rec.Skip(o.why)
			return
		}
		// closed forms, independent of the reference
		if why := closedForms(stmts, expect); why != "" {
			fail(t, "C18", "session", map[string]any{"stmts": stmts}, "%s\n%s", why, clipS(text))
		}
		if o.maxDepth > recMax(rec, "max_recursion_depth") {
			rec.Extra["max_recursion_depth"] = o.maxDepth
		}
		rec.Case("P|"+text, true, "program")
	}
}
