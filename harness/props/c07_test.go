package props

import (
	"encoding/json"
	"fmt"
	"reflect"
	"testing"

	"pgregory.net/rapid"

	"github.com/paulsonkoly/calc/parser"
	"github.com/paulsonkoly/calc/types/node"

	"verif/harness/ev"
	"verif/harness/gen"
)

// C07 Parsing follows the documented grammar: trees round-trip through source text.
//
// Generated: syntax trees of the shapes the parser can produce, printed by a
// printer written from the documented grammar in two layouts: plain (minimal
// parentheses by the precedence table, minimal braces) and redundant (extra
// parentheses, braces, blanks, blank lines, comments). Oracle: parsing either
// text yields exactly the tree.

const c07Rule = "random syntax trees (depth <= 5: every operator in every nesting, every statement form in every body position) printed plain and with redundant layout; " +
	"non-trivial = the tree has two binary operators in parent/child relation, or a unary/index under a binary operator, or a statement form as a one-line body; distinct by plain source text"

type treeStats struct {
	pairs    map[string]bool // parent-op|child-op|side
	nested   bool
	unaryIn  bool
	bodyStmt bool
}

func (s *treeStats) walk(n node.Type) {
	switch n := n.(type) {
	case node.BinOp:
		for side, c := range []node.Type{n.Left, n.Right} {
			switch c := c.(type) {
			case node.BinOp:
				s.nested = true
				s.pairs[fmt.Sprintf("%s|%s|%d", n.Op, c.Op, side)] = true
			case node.UnOp, node.IndexAt, node.IndexFromTo:
				s.unaryIn = true
			}
			s.walk(c)
		}
	case node.UnOp:
		s.walk(n.Target)
	case node.IndexAt:
		s.walk(n.Ary)
		s.walk(n.At)
	case node.IndexFromTo:
		s.walk(n.Ary)
		s.walk(n.From)
		s.walk(n.To)
	case node.List:
		for _, e := range n.Elems {
			s.walk(e)
		}
	case node.Call:
		s.walk(n.Arguments)
	case node.Function:
		s.body(n.Body)
	case node.If:
		s.walk(n.Condition)
		s.body(n.TrueCase)
	case node.IfElse:
		s.walk(n.Condition)
		s.body(n.TrueCase)
		s.body(n.FalseCase)
	case node.While:
		s.walk(n.Condition)
		s.body(n.Body)
	case node.For:
		s.walk(n.Iterators)
		s.body(n.Body)
	case node.Return:
		s.walk(n.Target)
	case node.Yield:
		s.walk(n.Target)
	case node.Assign:
		s.walk(n.Value)
	case node.Block:
		for _, e := range n.Body {
			s.walk(e)
		}
	}
}

func (s *treeStats) body(n node.Type) {
	switch n.(type) {
	case node.If, node.IfElse, node.While, node.For, node.Return, node.Yield, node.Assign:
		s.bodyStmt = true
	}
	s.walk(n)
}

func roundTrip(tree node.Type, src string) string {
	var got []node.Type
	var perr *parser.Error
	panicked := ""
	func() {
		defer func() {
			if x := recover(); x != nil {
				panicked = fmt.Sprint(x)
			}
		}()
		got, perr = parser.Parse(src)
	}()
	switch {
	case panicked != "":
		return "parser panics: " + panicked
	case perr != nil:
		return fmt.Sprintf("parse error %v [%d,%d]", perr, perr.From(), perr.To())
	case len(got) != 1:
		return fmt.Sprintf("%d statements parsed", len(got))
	case !reflect.DeepEqual(got[0], tree):
		return fmt.Sprintf("parsed tree differs\n  want %#v\n  got  %#v", tree, got[0])
	}
	return ""
}

var c07Pairs = map[string]bool{}

func c07Prop(rec *ev.Recorder) func(t *rapid.T) {
	return func(t *rapid.T) {
		g := &gen.TreeGen{T: t}
		var tree node.Type
		d := rapid.IntRange(1, 5).Draw(t, "depth")
		if rapid.IntRange(0, 5).Draw(t, "top") == 0 {
			tree = g.Block(d)
		} else {
			tree = g.Stmt(d)
		}
		plain := (&gen.Printer{C: gen.Plain{}}).Top(tree)
		if why := roundTrip(tree, plain); why != "" {
			fail(t, "C07", "tree", map[string]any{"tree": gen.EncodeTree(tree), "src": plain}, "plain layout: %s\n%s", why, plain)
		}
		red := (&gen.Printer{C: gen.RapidChooser{T: t}, Redundant: true}).Top(tree)
		if why := roundTrip(tree, red); why != "" {
			fail(t, "C07", "tree", map[string]any{"tree": gen.EncodeTree(tree), "src": red}, "redundant layout: %s\n--- plain\n%s\n--- redundant\n%s", why, plain, red)
		}
		st := &treeStats{pairs: c07Pairs}
		st.body(tree)
		rec.Extra["operator_pairs_covered_of_578"] = len(c07Pairs)
		rec.Case(plain, st.nested || st.unaryIn || st.bodyStmt, "trees")
	}
}

func init() {
	replayers["C07"] = func(kind string, c json.RawMessage) string {
		// the replay unit is the tree and the source text that failed to give it back
		var v struct {
			Tree *gen.TreeJSON
			Src  string
		}
		mustJSON(c, &v)
		tree := gen.DecodeTree(v.Tree)
		plain := (&gen.Printer{C: gen.Plain{}}).Top(tree)
		if why := roundTrip(tree, plain); why != "" {
			return fmt.Sprintf("plain layout: %s\n%s", why, plain)
		}
		if why := roundTrip(tree, v.Src); why != "" {
			return fmt.Sprintf("recorded layout: %s\n%s", why, v.Src)
		}
		return ""
	}
}

func TestC07(t *testing.T) {
	if replayMode(t, "C07") {
		return
	}
	rec := ev.New("C07", c07Rule,
		"the printer (harness/gen/print.go) is the documented grammar: precedence table and associativity of the Readme, braces for multi-statement bodies",
		"trees are restricted to shapes the parser can produce (non-negative number literals, strings without backslash, no one-statement Block)")
	rec.Extra["regression_cases"] = runRegressions(t, "C07")
	defer finish(t, rec)
	rapid.Check(t, c07Prop(rec))
}
