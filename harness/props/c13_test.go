package props

import (
	"encoding/json"
	"fmt"
	"strings"
	"testing"

	"pgregory.net/rapid"

	c "github.com/paulsonkoly/calc/combinator"
	"github.com/paulsonkoly/calc/lexer"
	"github.com/paulsonkoly/calc/types/token"

	"verif/harness/ev"
)

// C13 Backtracking is invisible: failed alternatives consume nothing.
//
// (a) TLexer state machine: Next / Snapshot / Rollback / Commit against a model
//     (the result list of a fresh lexer.Lexer scan, a cursor and a cursor stack).
// (b) random parser expressions over all thirteen combinators against an
//     ordered-choice recogniser written independently over the token list.

const c13Rule = "(a) operation sequences on lexer.TLexer over generated text incl. lexer-error positions; " +
	"(b) random combinator expressions (<= 25 nodes, documented preconditions: last Choose gate always succeeds, Any/SeparatedBy bodies consume) x random token streams; " +
	"non-trivial = (a) a Rollback that actually moved the cursor back, (b) a run in which some alternative failed after consuming >= 1 token; distinct by operation list / parser+input text"

// ---------------------------------------------------------------------------
// (a) transactional lexer

type lexEntry struct {
	tok      token.Type
	err      string
	from, to int
}

func freshScan(src string) []lexEntry {
	l := lexer.NewLexer(src)
	tl := lexer.NewTLexer(src) // positions are only exported through the TLexer
	res := []lexEntry{}
	for i := 0; i < 4*len(src)+16; i++ {
		a, b := l.Next(), tl.Next()
		if a != b {
			panic("fresh TLexer and Lexer disagree on Next")
		}
		if !a {
			return res
		}
		e := lexEntry{tok: l.Token, from: tl.From(), to: tl.To()}
		if l.Err != nil {
			e.err = l.Err.Error()
		}
		res = append(res, e)
		if e.err != "" {
			// a lexer error ends the stream for every caller: the combinators stop at
			// it, and the lexer does not promise anything about later calls
			return res
		}
	}
	return res
}

var lexPieces = []string{"a", "bc", "if", "12", "3.5", "+", "<=", "->", "(", ")", "{", "}", "[", "]", ",", ":", "\"s\"", "\"a\\\"b\"", " ", "  ", "\t", "\n", "; c\n", "$", "A", "\"open", "1.", "12ab", "é"}

func genLexText(t *rapid.T) string {
	n := rapid.IntRange(0, 12).Draw(t, "pieces")
	var sb strings.Builder
	for i := 0; i < n; i++ {
		sb.WriteString(rapid.SampledFrom(lexPieces).Draw(t, "piece"))
		if rapid.IntRange(0, 2).Draw(t, "gap") > 0 {
			sb.WriteString(" ")
		}
	}
	if rapid.IntRange(0, 7).Draw(t, "long") == 0 {
		// long inputs: buffers and thresholds of the transactional lexer depend on how far it has read
		return strings.Repeat(sb.String()+" x ", rapid.SampledFrom([]int{40, 200, 600, 1500}).Draw(t, "repeat"))
	}
	return sb.String()
}

func c13LexerProp(rec *ev.Recorder) func(t *rapid.T) {
	return func(t *rapid.T) {
		src := genLexText(t)
		model := freshScan(src)
		tl := lexer.NewTLexer(src)
		cursor := -1
		stack := []int{}
		ops := []string{}
		movedBack := false
		check := func() {
			if cursor < 0 {
				return
			}
			want := model[cursor]
			got := tl.Token().(token.Type)
			gerr := ""
			if tl.Err() != nil {
				gerr = tl.Err().Error()
			}
			if got != want.tok || gerr != want.err || tl.From() != want.from || tl.To() != want.to {
				fail(t, "C13", "tlexer", map[string]any{"src": src, "ops": ops},
					"after %v on %q: token %v err %q [%d,%d], fresh scan gives %v err %q [%d,%d]",
					ops, src, got, gerr, tl.From(), tl.To(), want.tok, want.err, want.from, want.to)
			}
		}
		t.Repeat(map[string]func(*rapid.T){
			"next": func(t *rapid.T) {
				if cursor >= 0 && model[cursor].err != "" {
					t.Skip("no caller advances past a lexer error")
				}
				ops = append(ops, "next")
				has := tl.Next()
				if want := cursor+1 < len(model); has != want {
					fail(t, "C13", "tlexer", map[string]any{"src": src, "ops": ops}, "Next()=%v at cursor %d of %d on %q after %v", has, cursor, len(model), src, ops)
				}
				if has {
					cursor++
				}
			},
			"run": func(t *rapid.T) {
				k := rapid.SampledFrom([]int{3, 30, 300, 1023, 1024, 1025, 2049}).Draw(t, "k")
				if cursor+1 >= len(model) || cursor >= 0 && model[cursor].err != "" {
					t.Skip("nothing to read")
				}
				for ; k > 0 && cursor+1 < len(model) && (cursor < 0 || model[cursor].err == ""); k-- {
					if !tl.Next() {
						fail(t, "C13", "tlexer", map[string]any{"src": src, "ops": append(ops, "next")}, "Next()=false at cursor %d of %d after %d operations", cursor, len(model), len(ops))
					}
					ops = append(ops, "next")
					cursor++
					check()
				}
			},
			"snapshot": func(t *rapid.T) {
				ops = append(ops, "snapshot")
				tl.Snapshot()
				stack = append(stack, cursor)
			},
			"rollback": func(t *rapid.T) {
				if len(stack) == 0 {
					t.Skip("no snapshot")
				}
				ops = append(ops, "rollback")
				tl.Rollback()
				if stack[len(stack)-1] < cursor {
					movedBack = true
				}
				cursor = stack[len(stack)-1]
				stack = stack[:len(stack)-1]
			},
			"commit": func(t *rapid.T) {
				if len(stack) == 0 {
					t.Skip("no snapshot")
				}
				ops = append(ops, "commit")
				tl.Commit()
				stack = stack[:len(stack)-1]
			},
			"": func(t *rapid.T) { check() },
		})
		rec.Case("L|"+src+"|"+strings.Join(ops, ","), movedBack, "tlexer")
	}
}

// ---------------------------------------------------------------------------
// (b) combinators against an ordered-choice recogniser

type pexp struct {
	kind string
	tok  string
	kids []*pexp
}

func (p *pexp) String() string {
	if p.kind == "acc" {
		return "'" + p.tok + "'"
	}
	ks := []string{}
	for _, k := range p.kids {
		ks = append(ks, k.String())
	}
	return p.kind + "(" + strings.Join(ks, ",") + ")"
}

func (p *pexp) size() int {
	n := 1
	for _, k := range p.kids {
		n += k.size()
	}
	return n
}

var combAlphabet = []string{"a", "b", "c", "+", "(", ")"}

// consumes: p succeeds only by consuming at least one token
func consumes(p *pexp) bool {
	switch p.kind {
	case "acc":
		return true
	case "ok", "assert", "not", "any", "sepby":
		return false
	case "and", "seq", "surr":
		for _, k := range p.kids {
			if consumes(k) {
				return true
			}
		}
		return false
	case "oneof":
		for _, k := range p.kids {
			if !consumes(k) {
				return false
			}
		}
		return true
	case "choose":
		for i := 0; i < len(p.kids); i += 2 {
			if !consumes(p.kids[i]) && !consumes(p.kids[i+1]) {
				return false
			}
		}
		return true
	case "drop", "fmap":
		return consumes(p.kids[0])
	}
	panic(p.kind)
}

func genPexp(t *rapid.T, d int) *pexp {
	leaf := func() *pexp {
		if rapid.IntRange(0, 4).Draw(t, "okleaf") == 0 {
			return &pexp{kind: "ok"}
		}
		return &pexp{kind: "acc", tok: rapid.SampledFrom(combAlphabet).Draw(t, "tok")}
	}
	if d <= 0 {
		return leaf()
	}
	// a sub-expression that consumes on success: construct instead of reject
	consuming := func() (*pexp, *pexp) {
		a, b := genPexp(t, d-1), genPexp(t, d-1)
		if !consumes(a) && !consumes(b) {
			b = &pexp{kind: "and", kids: []*pexp{b, {kind: "acc", tok: rapid.SampledFrom(combAlphabet).Draw(t, "tok")}}}
		}
		return a, b
	}
	many := func(lo, hi int) []*pexp {
		n := rapid.IntRange(lo, hi).Draw(t, "n")
		ks := []*pexp{}
		for i := 0; i < n; i++ {
			ks = append(ks, genPexp(t, d-1))
		}
		return ks
	}
	switch rapid.IntRange(0, 11).Draw(t, "comb") {
	case 0:
		return &pexp{kind: "and", kids: []*pexp{genPexp(t, d-1), genPexp(t, d-1)}}
	case 1:
		return &pexp{kind: "seq", kids: many(1, 3)}
	case 2:
		return &pexp{kind: "oneof", kids: many(1, 3)}
	case 3:
		n := rapid.IntRange(0, 2).Draw(t, "n")
		ks := []*pexp{}
		for i := 0; i < n; i++ {
			ks = append(ks, genPexp(t, d-1), genPexp(t, d-1))
		}
		ks = append(ks, &pexp{kind: "ok"}, genPexp(t, d-1))
		return &pexp{kind: "choose", kids: ks}
	case 4:
		g, s := consuming()
		return &pexp{kind: "any", kids: []*pexp{g, s}}
	case 5:
		a, b := consuming()
		return &pexp{kind: "sepby", kids: []*pexp{a, b}}
	case 6:
		return &pexp{kind: "surr", kids: []*pexp{genPexp(t, d-1), genPexp(t, d-1), genPexp(t, d-1)}}
	case 7:
		return &pexp{kind: "assert", kids: []*pexp{genPexp(t, d-1)}}
	case 8:
		return &pexp{kind: "not", kids: []*pexp{genPexp(t, d-1)}}
	case 9:
		return &pexp{kind: "drop", kids: []*pexp{genPexp(t, d-1)}}
	case 10:
		return &pexp{kind: "fmap", kids: []*pexp{genPexp(t, d-1)}}
	default:
		return leaf()
	}
}

type strWrap struct{}

func (strWrap) Wrap(t c.Token) c.Node { return t.(token.Type).Value }

func groupNodes(ns []c.Node) []c.Node { return []c.Node{append([]c.Node{"G"}, ns...)} }

func buildParser(p *pexp) c.Parser {
	ks := []c.Parser{}
	for _, k := range p.kids {
		ks = append(ks, buildParser(k))
	}
	switch p.kind {
	case "acc":
		tok := p.tok
		return c.Accept(func(t c.Token) bool { return t.(token.Type).Value == tok }, tok, strWrap{})
	case "ok":
		return c.Ok()
	case "and":
		return c.And(ks[0], ks[1])
	case "seq":
		return c.Seq(ks...)
	case "oneof":
		return c.OneOf(ks...)
	case "choose":
		cs := []c.Conditional{}
		for i := 0; i < len(ks); i += 2 {
			cs = append(cs, c.Conditional{Gate: ks[i], OnSuccess: ks[i+1]})
		}
		return c.Choose(cs...)
	case "any":
		return c.Any(c.Conditional{Gate: ks[0], OnSuccess: ks[1]})
	case "sepby":
		return c.SeparatedBy(ks[0], ks[1])
	case "surr":
		return c.SurroundedBy(ks[0], ks[1], ks[2])
	case "assert":
		return c.Assert(ks[0])
	case "not":
		return c.Not(ks[0])
	case "drop":
		return c.Drop(ks[0])
	case "fmap":
		return c.Fmap(groupNodes, ks[0])
	}
	panic(p.kind)
}

type mtok struct {
	val string
	err bool
}

// peg is the ordered-choice recogniser: ok, results, position after success.
// backtracked is set when an alternative failed after consuming input.
type peg struct {
	toks        []mtok
	backtracked bool
	far         int // furthest position touched by the last failing sub-parse
}

func (m *peg) run(p *pexp, i int) (bool, []c.Node, int) {
	// alt runs a sub-parser whose failure is rolled back by the caller
	alt := func(k *pexp, at int) (bool, []c.Node, int) {
		m.far = at
		ok, r, j := m.run(k, at)
		if !ok && m.far > at {
			m.backtracked = true
		}
		return ok, r, j
	}
	switch p.kind {
	case "acc":
		if i >= len(m.toks) || m.toks[i].err || m.toks[i].val != p.tok {
			if i > m.far {
				m.far = i
			}
			return false, nil, i
		}
		if i+1 > m.far {
			m.far = i + 1
		}
		return true, []c.Node{m.toks[i].val}, i + 1
	case "ok":
		return true, []c.Node{}, i
	case "and", "seq":
		res := []c.Node{}
		for _, k := range p.kids {
			ok, r, j := m.run(k, i)
			if !ok {
				return false, nil, i
			}
			res = append(res, r...)
			i = j
		}
		return true, res, i
	case "oneof":
		for _, k := range p.kids {
			if ok, r, j := alt(k, i); ok {
				return true, r, j
			}
		}
		return false, nil, i
	case "choose":
		for k := 0; k < len(p.kids); k += 2 {
			ok, r, j := alt(p.kids[k], i)
			if !ok {
				continue
			}
			ok2, r2, j2 := m.run(p.kids[k+1], j)
			if !ok2 {
				return false, nil, i
			}
			return true, append(append([]c.Node{}, r...), r2...), j2
		}
		panic("choose without a succeeding gate")
	case "any":
		res := []c.Node{}
		for {
			ok, r, j := alt(p.kids[0], i)
			if !ok {
				return true, res, i
			}
			ok2, r2, j2 := m.run(p.kids[1], j)
			if !ok2 {
				return false, nil, i
			}
			res = append(append(res, r...), r2...)
			i = j2
		}
	case "sepby":
		ok, res, j := alt(p.kids[0], i)
		if !ok {
			return true, []c.Node{}, i
		}
		i = j
		for {
			start := i
			m.far = start
			ok, _, j := m.run(p.kids[1], i)
			if !ok {
				if m.far > start {
					m.backtracked = true
				}
				return true, res, i
			}
			ok2, r2, j2 := m.run(p.kids[0], j)
			if !ok2 {
				if j > start || m.far > start {
					m.backtracked = true
				}
				return true, res, i
			}
			res = append(res, r2...)
			i = j2
		}
	case "surr":
		ok, _, j := m.run(p.kids[0], i)
		if !ok {
			return false, nil, i
		}
		ok, r, j := m.run(p.kids[1], j)
		if !ok {
			return false, nil, i
		}
		ok, _, j = m.run(p.kids[2], j)
		if !ok {
			return false, nil, i
		}
		return true, r, j
	case "assert":
		ok, _, j := m.run(p.kids[0], i)
		if j > i || (!ok && m.far > i) {
			m.backtracked = true
		}
		return ok, []c.Node{}, i
	case "not":
		ok, _, j := m.run(p.kids[0], i)
		if j > i || (!ok && m.far > i) {
			m.backtracked = true
		}
		return !ok, []c.Node{}, i
	case "drop":
		ok, _, j := m.run(p.kids[0], i)
		return ok, []c.Node{}, j
	case "fmap":
		ok, r, j := m.run(p.kids[0], i)
		if !ok {
			return false, nil, i
		}
		return true, groupNodes(r), j
	}
	panic(p.kind)
}

func combCheck(p *pexp, src string) (mismatch string, backtracked bool) {
	toks := []mtok{}
	l := lexer.NewLexer(src)
	for i := 0; i < 4*len(src)+16 && l.Next(); i++ {
		if l.Err != nil {
			toks = append(toks, mtok{err: true})
			break // a parser never reads past a lexer error
		}
		toks = append(toks, mtok{val: l.Token.Value})
	}
	tl := lexer.NewTLexer(src)
	var ok bool
	var res []c.Node
	func() {
		defer func() {
			if x := recover(); x != nil {
				mismatch = fmt.Sprint("panic: ", x)
			}
		}()
		rs, err := buildParser(p)(&tl)
		ok, res = err == nil, rs
	}()
	if mismatch != "" {
		return
	}
	m := &peg{toks: toks}
	wok, wres, wpos := m.run(p, 0)
	backtracked = m.backtracked
	norm := func(ns []c.Node) string { return fmt.Sprintf("%v", ns) }
	switch {
	case ok != wok:
		mismatch = fmt.Sprintf("accepts=%v, the ordered-choice recogniser %v", ok, wok)
	case ok && norm(res) != norm(wres):
		mismatch = fmt.Sprintf("result %v, recogniser %v", norm(res), norm(wres))
	case ok:
		// the position after success, probed by reading the next token
		has := tl.Next()
		switch {
		case wpos >= len(toks):
			if has {
				mismatch = "position after success: input should be exhausted"
			}
		case !has:
			mismatch = "position after success: unexpected end of input"
		case toks[wpos].err != (tl.Err() != nil) || (!toks[wpos].err && tl.Token().(token.Type).Value != toks[wpos].val):
			mismatch = fmt.Sprintf("position after success: next token %v, recogniser is at %v (#%d)", tl.Token(), toks[wpos], wpos)
		}
	}
	return
}

func genCombInput(t *rapid.T) string {
	n := rapid.IntRange(0, 8).Draw(t, "ntok")
	parts := []string{}
	for j := 0; j < n; j++ {
		if rapid.IntRange(0, 14).Draw(t, "lexerr") == 0 {
			parts = append(parts, "$")
		} else {
			parts = append(parts, rapid.SampledFrom(combAlphabet).Draw(t, "tok"))
		}
	}
	return strings.Join(parts, " ")
}

func c13CombProp(rec *ev.Recorder) func(t *rapid.T) {
	return func(t *rapid.T) {
		p := genPexp(t, rapid.IntRange(1, 4).Draw(t, "depth"))
		if p.size() > 25 {
			rec.Skip("parser expression larger than 25 nodes")
			return
		}
		src := genCombInput(t)
		mismatch, bt := combCheck(p, src)
		if mismatch != "" {
			fail(t, "C13", "combinator", map[string]any{"parser": p.String(), "input": src}, "%s\n  parser %v\n  input %q", mismatch, p, src)
		}
		rec.Case("C|"+p.String()+"|"+src, bt, "combinator")
	}
}

func c13Prop(rec *ev.Recorder) func(t *rapid.T) {
	lp, cp := c13LexerProp(rec), c13CombProp(rec)
	return func(t *rapid.T) {
		if rapid.IntRange(0, 3).Draw(t, "which") == 0 {
			lp(t)
		} else {
			cp(t)
		}
	}
}

func init() {
	replayers["C13"] = func(kind string, c json.RawMessage) string {
		switch kind {
		case "combinator":
			var v struct{ Parser, Input string }
			mustJSON(c, &v)
			p := parsePexp(v.Parser)
			if m, _ := combCheck(p, v.Input); m != "" {
				return fmt.Sprintf("%s\n  parser %v\n  input %q", m, p, v.Input)
			}
		case "tlexer":
			var v struct {
				Src string
				Ops []string
			}
			mustJSON(c, &v)
			return replayTLexer(v.Src, v.Ops)
		}
		return ""
	}
}

func TestC13(t *testing.T) {
	if replayMode(t, "C13") {
		return
	}
	rec := ev.New("C13", c13Rule,
		"the ordered-choice recogniser in this file is the specification of the combinators",
		"preconditions documented in combinator.go are respected by construction (Choose ends in an always-succeeding gate; Any/SeparatedBy bodies consume)")
	rec.Extra["regression_cases"] = runRegressions(t, "C13")
	defer finish(t, rec)
	rapid.Check(t, c13Prop(rec))
}

func replayTLexer(src string, ops []string) string {
	model := freshScan(src)
	tl := lexer.NewTLexer(src)
	cursor := -1
	stack := []int{}
	for i, op := range ops {
		switch op {
		case "next":
			if cursor >= 0 && model[cursor].err != "" {
				continue
			}
			has := tl.Next()
			if want := cursor+1 < len(model); has != want {
				return fmt.Sprintf("op %d: Next()=%v want %v", i, has, want)
			}
			if has {
				cursor++
			}
		case "snapshot":
			tl.Snapshot()
			stack = append(stack, cursor)
		case "rollback":
			tl.Rollback()
			cursor = stack[len(stack)-1]
			stack = stack[:len(stack)-1]
		case "commit":
			tl.Commit()
			stack = stack[:len(stack)-1]
		}
		if cursor >= 0 {
			want := model[cursor]
			got := tl.Token().(token.Type)
			gerr := ""
			if tl.Err() != nil {
				gerr = tl.Err().Error()
			}
			if got != want.tok || gerr != want.err || tl.From() != want.from || tl.To() != want.to {
				return fmt.Sprintf("op %d (%s) on %q: token %v err %q [%d,%d], fresh scan gives %v err %q [%d,%d]", i, op, src, got, gerr, tl.From(), tl.To(), want.tok, want.err, want.from, want.to)
			}
		}
	}
	return ""
}

// parsePexp reads back pexp.String().
func parsePexp(s string) *pexp {
	pos := 0
	var parse func() *pexp
	parse = func() *pexp {
		if s[pos] == '\'' {
			end := strings.IndexByte(s[pos+1:], '\'') + pos + 1
			p := &pexp{kind: "acc", tok: s[pos+1 : end]}
			pos = end + 1
			return p
		}
		start := pos
		for s[pos] != '(' {
			pos++
		}
		p := &pexp{kind: s[start:pos]}
		pos++ // (
		for s[pos] != ')' {
			p.kids = append(p.kids, parse())
			if s[pos] == ',' {
				pos++
			}
		}
		pos++
		return p
	}
	return parse()
}
