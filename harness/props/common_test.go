package props

import (
	"encoding/json"
	"flag"
	"fmt"
	"os"
	"path/filepath"
	"sort"
	"strconv"
	"strings"
	"testing"
	"time"

	"pgregory.net/rapid"

	"verif/harness/ev"
	"verif/harness/ref"
	"verif/harness/run"
)

// size parameter of the tier: 1 for quick, larger for thorough
func tierScale() int {
	if os.Getenv("VERIF_TIER") == "thorough" {
		return 3
	}
	return 1
}

func envInt(name string, def int) int {
	if v, err := strconv.Atoi(os.Getenv(name)); err == nil {
		return v
	}
	return def
}

// replayFile is set by -replay: the property is run on the recorded case
// instead of generated ones.
var replayFile = flag.String("replay", "", "replay file written by the driver")

type replayDoc struct {
	Property string          `json:"property"`
	Kind     string          `json:"kind"`
	Case     json.RawMessage `json:"case"`
}

// replayers re-run the oracle of a property on one recorded case, without
// rapid; they return "" when the property holds on the case.
var replayers = map[string]func(kind string, c json.RawMessage) string{}

func readReplay(path, id string) (replayDoc, error) {
	var d replayDoc
	b, err := os.ReadFile(path)
	if err != nil {
		return d, err
	}
	if err := json.Unmarshal(b, &d); err != nil {
		return d, fmt.Errorf("%s: %v", path, err)
	}
	if d.Property != id {
		return d, fmt.Errorf("%s is a case of %s, not %s", path, d.Property, id)
	}
	return d, nil
}

// replayMode handles -replay: returns true if the test is done.
func replayMode(t *testing.T, id string) bool {
	if *replayFile == "" {
		return false
	}
	d, err := readReplay(*replayFile, id)
	if err != nil {
		t.Fatalf("replay: %v", err)
	}
	if why := replayers[id](d.Kind, d.Case); why != "" {
		ev.Repro(id, d.Kind, d.Case)
		t.Fatalf("%s", why)
	}
	return true
}

// runRegressions runs the permanent regression cases of a property
// (/verif/regress/<id>/*.json: shrunk reproducers of repaired defects and of
// seeded changes) before any generated case.
func runRegressions(t *testing.T, id string) int {
	dir := os.Getenv("VERIF_DIR")
	if dir == "" {
		dir = "../.."
	}
	files, _ := filepath.Glob(filepath.Join(dir, "regress", id, "*.json"))
	sort.Strings(files)
	for _, f := range files {
		d, err := readReplay(f, id)
		if err != nil {
			t.Fatalf("regression case: %v", err)
		}
		if why := replayers[id](d.Kind, d.Case); why != "" {
			ev.Repro(id, d.Kind, d.Case)
			t.Fatalf("regression case %s: %s", filepath.Base(f), why)
		}
	}
	return len(files)
}

func mustJSON(c json.RawMessage, into any) {
	if err := json.Unmarshal(c, into); err != nil {
		panic(fmt.Sprintf("bad replay case: %v", err))
	}
}

// finish writes the evidence of a test.
func finish(t *testing.T, rec *ev.Recorder) { rec.Write(btoi(t.Failed())) }

func btoi(b bool) int {
	if b {
		return 1
	}
	return 0
}

// outcome of comparing one session between the reference and the VM
type outcome struct {
	kind string // ok, ok-with-errors, skip, MISMATCH, PANIC, RESIDUE, REPORT
	why  string
	// statistics
	errs     int
	refSteps int
	vmSteps  int
	maxDepth int
	resumes  int
	maxGen   int
	reports  int
	refused  int
}

func (o outcome) bad() bool {
	switch o.kind {
	case "MISMATCH", "PANIC", "RESIDUE", "REPORT":
		return true
	}
	return false
}

type diffOpts struct {
	discard     bool // file mode code generation
	checkReport bool // compare error reports with the report model (C19)
	noResidue   bool // do not look at the machine state
}

// vmStepLimit is the deterministic bound on VM instructions for a statement
// the reference finished in refSteps evaluation steps.
func vmStepLimit(refSteps int) int { return 1000*refSteps + 10000 }

// diffSession runs the statements of a session on the reference and on the
// real pipeline (fresh instances) and compares, statement by statement, final
// value, written output and error class.
func diffSession(stmts []string, o diffOpts) (res outcome) {
	rf := ref.New()
	s := run.NewSession()
	for i, src := range stmts {
		if strings.HasPrefix(src, oversizeMark) {
			// a statement built to exceed the compiler's limits: it must be refused
			// without a trace (then it does not exist for the reference either) or work
			src = strings.TrimPrefix(src, oversizeMark)
			vr := s.Run(src, o.discard, 0)
			switch {
			case vr.Panic != "":
				res.kind, res.why = "PANIC", fmt.Sprintf("stmt %d (oversized): %s", i, firstLine(vr.Panic))
				return
			case vr.CompileErr != nil:
				res.refused++
				continue
			}
			// accepted: the reference has to see it as well
			if _, perr := rf.RunStmt(src); perr != nil {
				return outcome{kind: "skip", why: "parse: " + perr.Error()}
			}
			continue
		}
		rr, perr := rf.RunStmt(src)
		if perr != nil {
			return outcome{kind: "skip", why: "parse: " + perr.Error()}
		}
		res.refSteps += rr.Steps
		if rr.Amb != "" {
			res.kind, res.why = "skip", "domain: "+strings.SplitN(rr.Amb, ":", 2)[0]
			return
		}
		if rr.Lim {
			res.kind, res.why = "skip", "reference budget"
			return
		}
		if rr.Exit {
			res.kind, res.why = "skip", "exit"
			return
		}
		vr := s.Run(src, o.discard, vmStepLimit(rr.Steps))
		res.vmSteps += vr.Steps
		switch {
		case vr.Panic != "":
			res.kind, res.why = "PANIC", fmt.Sprintf("stmt %d: %s", i, firstLine(vr.Panic))
			return
		case vr.ParseErr != nil:
			res.kind, res.why = "MISMATCH", fmt.Sprintf("stmt %d: parser accepts then rejects", i)
			return
		case vr.CompileErr != nil:
			res.kind, res.why = "MISMATCH", fmt.Sprintf("stmt %d: refused at compile time: %v", i, vr.CompileErr)
			return
		case vr.Lim:
			res.kind, res.why = "MISMATCH", fmt.Sprintf("stmt %d: VM exceeds %d steps where the reference needs %d", i, vmStepLimit(rr.Steps), rr.Steps)
			return
		}
		if rr.Err == nil && vr.Err != "" {
			res.kind, res.why = "MISMATCH", fmt.Sprintf("stmt %d: VM error %q, reference none", i, vr.Err)
			return
		}
		if rr.Err != nil && !rr.Err.Accepts(vr.Err) {
			res.kind, res.why = "MISMATCH", fmt.Sprintf("stmt %d: error class VM %q, reference %q", i, vr.Err, rr.Err.Class)
			return
		}
		if vr.Written() != rr.Out {
			res.kind, res.why = "MISMATCH", fmt.Sprintf("stmt %d: output VM %q, reference %q", i, clipS(vr.Written()), clipS(rr.Out))
			return
		}
		if rr.Err == nil && !o.discard && !ref.Equiv(rr.Val, vr.Val) {
			res.kind, res.why = "MISMATCH", fmt.Sprintf("stmt %d: value VM %s, reference %s", i, clipS(ref.Str(vr.Val)), clipS(ref.Str(rr.Val)))
			return
		}
		if rr.Err != nil {
			res.errs++
			if vr.Report() == "" {
				res.kind, res.why = "REPORT", fmt.Sprintf("stmt %d: no RUNTIME ERROR report printed", i)
				return
			}
			if o.checkReport && rr.Rep != nil && reportParseable(rr.Rep) {
				if why := checkReport(rr, vr.Report()); why != "" {
					res.kind, res.why = "REPORT", fmt.Sprintf("stmt %d: %s", i, why)
					return
				}
				res.reports++
			}
		}
		if vr.Resid != "" && !o.noResidue {
			res.kind, res.why = "RESIDUE", fmt.Sprintf("stmt %d: %s", i, vr.Resid)
			return
		}
		if rr.Err != nil && !o.noResidue {
			// after a failed statement the machine must be clean as well
			if resid := s.Residue(); resid != "" {
				res.kind, res.why = "RESIDUE", fmt.Sprintf("stmt %d (after error): %s", i, resid)
				return
			}
		}
	}
	res.maxDepth, res.resumes, res.maxGen = rf.MaxDepth, rf.Resumes, rf.MaxGen
	res.kind = "ok"
	if res.errs > 0 {
		res.kind = "ok-with-errors"
	}
	return
}

func firstLine(s string) string {
	if i := strings.Index(s, "\n"); i >= 0 {
		return s[:i]
	}
	return s
}

func clipS(s string) string {
	if len(s) > 200 {
		return s[:200] + "..."
	}
	return s
}

const stmtSep = "\n----\n"

// oversizeMark prefixes a statement that is expected to be refused at compile time.
const oversizeMark = "\x02"

// oversized builds a statement whose constants do not fit the data segment any more.
func oversized(n int) string {
	return oversizeMark + "zbig = [ga" + strings.Repeat(", 1", n) + "]"
}

func joinStmts(stmts []string) string { return strings.Join(stmts, stmtSep) }

// fail reports a violation: prints the reproducible unit and fails the test.
func fail(t *rapid.T, id, kind string, payload any, format string, args ...any) {
	ev.Repro(id, kind, payload)
	t.Fatalf(format, args...)
}

// closedForms runs a session on the real pipeline and compares the rendering
// of each statement's value with an expected text ("" = not checked).
func closedForms(stmts []string, expect []string) string {
	s := run.NewSession()
	for i, src := range stmts {
		vr := s.Run(src, false, 0)
		if vr.Panic != "" {
			return fmt.Sprintf("stmt %d: panic %s", i, firstLine(vr.Panic))
		}
		if i < len(expect) && expect[i] != "" {
			if vr.Err != "" {
				return fmt.Sprintf("stmt %d: %s, expected value %s", i, vr.Err, expect[i])
			}
			if got := ref.Str(vr.Val); got != expect[i] {
				return fmt.Sprintf("stmt %d: value %s, closed form %s", i, clipS(got), expect[i])
			}
		}
	}
	return ""
}

// watchdog runs f and reports whether it finished within d. It is the only
// wall-clock signal of the framework: front-end work on inputs of a few KiB
// takes microseconds, d is seconds. On a timeout the goroutine is abandoned
// (the process is about to exit).
func watchdog(d time.Duration, f func()) bool {
	done := make(chan struct{})
	go func() {
		defer close(done)
		f()
	}()
	select {
	case <-done:
		return true
	case <-time.After(d):
		return false
	}
}

const hangLimit = 10 * time.Second
