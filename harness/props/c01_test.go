package props

import (
	"encoding/json"
	"fmt"
	"strings"
	"testing"

	"pgregory.net/rapid"

	"verif/harness/ev"
	"verif/harness/gen"
)

// C01 Compiled execution matches the definitional semantics.
//
// Generated: well-typed, terminating, well-scoped sessions (gen.G). Oracle: the
// reference interpreter, statement by statement: final value, written output,
// runtime error class; in both result modes.

const c01Rule = "three in four cases: typed sessions from gen.G (3-10 top-level statements, closures/generators/recursion templates, statement forms as function tails with both outcomes); one in four: the type-blind sessions of C05 (tree generator over every operand kind, or typed sessions with token-level mutations); " +
	"non-trivial = the session ran on both sides without a domain flag and contains a construct whose code generation depends on context " +
	"(operator nesting >= 2, index/list/call under an operator, if/while/for/return/yield or a function call); distinct by session text"

func contextDependent(src string) bool {
	for _, k := range []string{"if ", "while ", "for ", "return ", "yield ", "->", "("} {
		if strings.Contains(src, k) {
			return true
		}
	}
	return false
}

func c01Prop(rec *ev.Recorder) func(t *rapid.T) {
	return func(t *rapid.T) {
		var stmts []string
		family := "typed"
		if rapid.IntRange(0, 3).Draw(t, "family") == 0 {
			// type-blind trees: every statement form in every position, over every kind of operand
			// (the sessions of C05, here compared with the definition instead of only watched for aborts)
			stmts = genBlindSession(t)
			family = "blind"
		} else {
			g := &gen.G{T: t, Ill: rapid.SampledFrom([]int{0, 0, 10, 40}).Draw(t, "ill")}
			stmts = g.Session()
		}
		discard := rapid.Bool().Draw(t, "discard")
		text := joinStmts(stmts)
		o := diffSession(stmts, diffOpts{discard: discard})
		if o.bad() {
			fail(t, "C01", "session", map[string]any{"stmts": stmts, "discard": discard}, "%s %s\n%s", o.kind, o.why, text)
		}
		if o.kind == "skip" {
			rec.Skip(o.why)
			rec.Case(text, false, "skipped")
			return
		}
		mode := "mode:result"
		if discard {
			mode = "mode:discard"
		}
		rec.Case(text, contextDependent(text), mode, "outcome:"+o.kind, "family:"+family)
	}
}

func init() {
	replayers["C01"] = func(kind string, c json.RawMessage) string {
		var v struct {
			Stmts   []string `json:"stmts"`
			Discard bool     `json:"discard"`
		}
		mustJSON(c, &v)
		if o := diffSession(v.Stmts, diffOpts{discard: v.Discard}); o.bad() {
			return fmt.Sprintf("%s %s\n%s", o.kind, o.why, joinStmts(v.Stmts))
		}
		return ""
	}
}

func TestC01(t *testing.T) {
	if replayMode(t, "C01") {
		return
	}
	rec := ev.New("C01", c01Rule,
		"the reference interpreter (harness/ref) is the definition of the language rules",
		"the parser is shared between reference and implementation (it has its own properties C06/C07/C13/C14)")
	rec.Extra["regression_cases"] = runRegressions(t, "C01")
	defer finish(t, rec)
	rapid.Check(t, c01Prop(rec))
}
