// Package ref is a definitional (reference) interpreter for calc.
//
// It evaluates the syntax tree returned by parser.Parse directly, by the rules
// of the Readme: strict left-to-right evaluation, int/float promotion, the
// documented value of every statement form, lexical scoping with one level of
// closure capture, and coroutine semantics for for/yield. It shares no code
// with the compiler, the VM, the memory model or the value package.
package ref

import (
	"fmt"
	"iter"
	"strconv"
	"strings"

	"github.com/paulsonkoly/calc/parser"
	"github.com/paulsonkoly/calc/types/node"
)

// V is a calc value: Nil, int, float64, bool, string, Arr or *Fn.
type V interface{}

// Nil is the absent value.
type Nil struct{}

// Arr is an array value.
type Arr []V

// Fn is a function value.
type Fn struct {
	Params  []string
	body    *rn
	closure *Frame // defining frame (nil at top level)
	Native  string
}

// ErrClass is a runtime error class, spelled as the VM prints it.
type ErrClass string

const (
	ENil   ErrClass = "nil error"
	EType  ErrClass = "type error"
	EZero  ErrClass = "division by zero"
	EIndex ErrClass = "index error"
	EArity ErrClass = "arity mismatch"
	EConv  ErrClass = "conversion error"
	ERead  ErrClass = "read error"
)

// RefErr is a calc runtime error raised by the reference.
type RefErr struct {
	Class ErrClass
	Alt   ErrClass // second acceptable class where the description leaves it open ("" if none)
	Op    string   // failing operation: operator text, "index", "call", "cond", "mov", "aton", "read"
	Vals  []V      // operand values the operation saw
}

// Accepts tells whether class c is an acceptable outcome for e.
func (e *RefErr) Accepts(c ErrClass) bool { return c == e.Class || (e.Alt != "" && c == e.Alt) }

type callRec struct {
	name   string
	params []string
	fr     *Frame
}

type ctx struct {
	parent *ctx
	frames []*callRec
}

// RepFrame is one active call of a report: the name it was called by and the
// (abbreviated) current values of its parameters.
type RepFrame struct {
	Name string
	Args []string
}

// Report is the reference's model of a runtime error report.
type Report struct {
	Op   string
	Vals []string     // abbreviated operand values
	Ctxs [][]RepFrame // failing context first, then every context it was forked from; calls innermost first
}

// Abbrev abbreviates like value.Abbrev.
func Abbrev(v V) string {
	s := Str(v)
	if len(s) > 20 {
		return s[:17] + "..."
	}
	return s
}

type ambiguous struct{ why string }
type abandon struct{}
type stepLimit struct{}
type exitReq struct{ code int }

// resolved syntax tree
type rn struct {
	n      node.Type // original node (for literals)
	kind   string
	op     string
	name   string
	res    int // 0 global 1 local 2 closure
	kids   []*rn
	params []string
	vars   []string
}

type scope struct {
	names  map[string]bool
	parent *scope
}

func (sc *scope) def(name string) {
	if sc != nil {
		sc.names[name] = true
	}
}

func conv(n node.Type, sc *scope) *rn {
	k := func(ns ...node.Type) []*rn {
		r := []*rn{}
		for _, x := range ns {
			r = append(r, conv(x, sc))
		}
		return r
	}
	switch n := n.(type) {
	case node.Int, node.Float, node.Bool, node.String:
		return &rn{n: n, kind: "lit"}
	case node.List:
		return &rn{kind: "list", kids: k(n.Elems...)}
	case node.Name:
		name := string(n)
		res := 0
		if sc != nil {
			if sc.names[name] {
				res = 1
			} else if sc.parent != nil && sc.parent.names[name] {
				res = 2
			}
		}
		return &rn{kind: "name", name: name, res: res}
	case node.BinOp:
		return &rn{kind: "bin", op: n.Op, kids: k(n.Left, n.Right)}
	case node.UnOp:
		return &rn{kind: "un", op: n.Op, kids: k(n.Target)}
	case node.IndexAt:
		return &rn{kind: "ix1", kids: k(n.Ary, n.At)}
	case node.IndexFromTo:
		return &rn{kind: "ix2", kids: k(n.Ary, n.From, n.To)}
	case node.Assign:
		name := string(n.VarRef.(node.Name))
		v := conv(n.Value, sc)
		sc.def(name)
		return &rn{kind: "assign", name: name, kids: []*rn{v}}
	case node.Block:
		return &rn{kind: "block", kids: k(n.Body...)}
	case node.If:
		return &rn{kind: "if", kids: k(n.Condition, n.TrueCase)}
	case node.IfElse:
		return &rn{kind: "ifelse", kids: k(n.Condition, n.TrueCase, n.FalseCase)}
	case node.While:
		return &rn{kind: "while", kids: k(n.Condition, n.Body)}
	case node.Return:
		return &rn{kind: "return", kids: k(n.Target)}
	case node.Yield:
		return &rn{kind: "yield", kids: k(n.Target)}
	case node.Function:
		ps := []string{}
		fsc := &scope{names: map[string]bool{}, parent: sc}
		for _, p := range n.Parameters.Elems {
			ps = append(ps, string(p.(node.Name)))
			fsc.names[string(p.(node.Name))] = true
		}
		return &rn{kind: "func", params: ps, kids: []*rn{conv(n.Body, fsc)}}
	case node.Call:
		kids := []*rn{conv(n.Name, sc)}
		kids = append(kids, k(n.Arguments.Elems...)...)
		return &rn{kind: "call", kids: kids}
	case node.For:
		its := k(n.Iterators.Elems...)
		vars := []string{}
		for _, v := range n.VarRefs.Elems {
			vars = append(vars, string(v.(node.Name)))
			sc.def(string(v.(node.Name)))
		}
		body := conv(n.Body, sc)
		return &rn{kind: "for", vars: vars, kids: append(its, body)}
	}
	panic(fmt.Sprintf("ref: unhandled node %T", n))
}

// Frame is the variables of one function activation.
type Frame struct {
	slots   map[string]V
	written map[string]bool
	closure *Frame
	twin    *Frame // live frame this iterator snapshot was taken from
}

// Ref is one reference session (global bindings persist between statements).
type Ref struct {
	cur     *ctx
	rep     *Report
	globals map[string]V
	out     strings.Builder

	Stdin []string // lines read() returns, each without the line break; nil = exhausted

	steps    int
	MaxSteps int // per statement
	MaxSize  int // largest array / string built
	depth    int
	MaxDepth int // deepest call nesting seen (statistics)
	Resumes  int // generator resumptions seen (statistics)
	MaxGen   int // deepest nesting of live coroutines seen (statistics)
	genDepth int
}

// BuiltinSrc is calc source for the built-in generators, as the Readme gives them.
var BuiltinSrc = []string{
	"fromto = (a, b) -> while a < b {\nyield a\na = a + 1\n}",
	"elems = (a) -> {\ni = 0\nwhile i < #a {\nyield a[i]\ni = i + 1\n}\n}",
	"indices = (a) -> {\ni = 0\nwhile i < #a {\nyield i\ni = i + 1\n}\n}",
}

// New creates a reference session with the built-in functions bound.
func New() *Ref {
	r := &Ref{globals: map[string]V{}, MaxSteps: 3000000, MaxSize: 1000000}
	for _, n := range []string{"write", "aton", "toa", "exit"} {
		r.globals[n] = &Fn{Native: n, Params: []string{"v"}}
	}
	r.globals["read"] = &Fn{Native: "read", Params: []string{}}
	for _, src := range BuiltinSrc {
		if res, err := r.RunStmt(src); err != nil || res.Err != nil {
			panic("ref: builtin source")
		}
	}
	return r
}

func (r *Ref) snapshot(e *RefErr) {
	if r.rep != nil {
		return
	}
	rep := &Report{Op: e.Op}
	for _, v := range e.Vals {
		rep.Vals = append(rep.Vals, Abbrev(v))
	}
	for c := r.cur; c != nil; c = c.parent {
		fs := []RepFrame{}
		for i := len(c.frames) - 1; i >= 0; i-- {
			rec := c.frames[i]
			rf := RepFrame{Name: rec.name}
			for _, p := range rec.params {
				v, ok := rec.fr.slots[p]
				if !ok {
					v = Nil{}
				}
				rf.Args = append(rf.Args, Abbrev(v))
			}
			fs = append(fs, rf)
		}
		rep.Ctxs = append(rep.Ctxs, fs)
	}
	r.rep = rep
}

// Result is the outcome of one top-level statement.
type Result struct {
	Val   V       // final value (Nil{} after an error)
	Err   *RefErr // runtime error, nil if none
	Rep   *Report // model of the error report, when Err != nil
	Out   string  // everything written
	Amb   string  // non-empty: the statement's meaning is not defined by the description (domain flag)
	Lim   bool    // step or size budget exceeded
	Exit  bool    // exit() was called
	Code  int     // exit status when Exit
	Steps int
}

// Skipped tells whether the statement is outside the reference's domain.
func (res Result) Skipped() bool { return res.Amb != "" || res.Lim }

// RunStmt parses src and evaluates every statement in it. A parse error is
// returned as error; everything else is in the Result.
func (r *Ref) RunStmt(src string) (res Result, perr error) {
	ast, err := parser.Parse(src)
	if err != nil {
		return Result{}, err
	}
	return r.RunTree(ast), nil
}

// RunTree evaluates parsed statements.
func (r *Ref) RunTree(ast []node.Type) (res Result) {
	var last V = Nil{}
	r.cur = &ctx{}
	r.rep = nil
	r.steps = 0
	r.out.Reset()
	defer func() {
		res.Out = r.out.String()
		res.Steps = r.steps
		if x := recover(); x != nil {
			switch e := x.(type) {
			case *RefErr:
				r.snapshot(e)
				res.Val, res.Err, res.Rep = Nil{}, e, r.rep
			case ambiguous:
				res.Amb = e.why
			case stepLimit:
				res.Lim = true
			case exitReq:
				res.Exit, res.Code = true, e.code
			default:
				panic(x)
			}
		}
	}()
	for _, st := range ast {
		v, _ := r.eval(conv(st, nil), nil, nil)
		last = v
	}
	return Result{Val: last}
}

type yh func(V)

// eval returns the value and whether a return is unwinding.
func (r *Ref) eval(n *rn, fr *Frame, y yh) (V, bool) {
	r.steps++
	if r.steps > r.MaxSteps {
		panic(stepLimit{})
	}
	ev := func(i int) V {
		v, _ := r.eval(n.kids[i], fr, y)
		return v
	}
	switch n.kind {
	case "lit":
		switch l := n.n.(type) {
		case node.Int:
			return int(l), false
		case node.Float:
			return float64(l), false
		case node.Bool:
			return bool(l), false
		case node.String:
			return string(l), false
		}
	case "list":
		a := make(Arr, 0, len(n.kids))
		for i := range n.kids {
			a = append(a, ev(i))
		}
		return a, false
	case "name":
		return r.lookup(n, fr), false
	case "bin":
		l := ev(0)
		rr := ev(1)
		if n.op == "<<" || n.op == ">>" {
			_, ok1 := l.(int)
			_, ok2 := rr.(int)
			if ok1 && ok2 && !ShiftPinned(l, rr) {
				panic(ambiguous{"shift-outside-pinned-domain"})
			}
		}
		return r.sized(BinOp(n.op, l, rr)), false
	case "un":
		return UnOp(n.op, ev(0)), false
	case "ix1":
		a := ev(0)
		i := ev(1)
		return Index(a, i), false
	case "ix2":
		a := ev(0)
		i := ev(1)
		j := ev(2)
		return Index(a, i, j), false
	case "assign":
		v := ev(0)
		if IsNil(v) {
			panic(&RefErr{Class: ENil, Op: "mov", Vals: []V{v}})
		}
		r.assign(n.name, v, fr)
		return v, false
	case "block":
		var last V = Nil{}
		for _, s := range n.kids {
			v, ret := r.eval(s, fr, y)
			if ret {
				return v, true
			}
			last = v
		}
		return last, false
	case "if":
		if r.condNode(n.kids[0], fr, y) {
			return r.eval(n.kids[1], fr, y)
		}
		return Nil{}, false
	case "ifelse":
		if r.condNode(n.kids[0], fr, y) {
			return r.eval(n.kids[1], fr, y)
		}
		return r.eval(n.kids[2], fr, y)
	case "while":
		var last V = Nil{}
		for r.condNode(n.kids[0], fr, y) {
			v, ret := r.eval(n.kids[1], fr, y)
			if ret {
				return v, true
			}
			last = v
		}
		return last, false
	case "return":
		return ev(0), true
	case "yield":
		v := ev(0)
		if y != nil {
			y(v)
		}
		return v, false
	case "func":
		return &Fn{Params: n.params, body: n.kids[0], closure: fr}, false
	case "call":
		args := []V{}
		for i := 1; i < len(n.kids); i++ {
			args = append(args, ev(i))
		}
		f := ev(0)
		return r.call(f, args, y, n.kids[0].name), false
	case "for":
		return r.evalFor(n, fr, y)
	}
	panic("ref: unhandled kind " + n.kind)
}

func (r *Ref) sized(v V) V {
	switch x := v.(type) {
	case string:
		if len(x) > r.MaxSize {
			panic(stepLimit{})
		}
	case Arr:
		if len(x) > r.MaxSize {
			panic(stepLimit{})
		}
	}
	return v
}

// condNode evaluates a condition. The implementation folds a leading negation
// into the conditional jump; the description does not say whether a negated
// nil condition is a nil error (of the negation) or a type error (of the
// condition), so both are accepted.
func (r *Ref) condNode(n *rn, fr *Frame, y yh) bool {
	if n.kind == "un" && n.op == "!" {
		v, _ := r.eval(n.kids[0], fr, y)
		if IsNil(v) {
			panic(&RefErr{Class: EType, Alt: ENil, Op: "cond", Vals: []V{v}})
		}
		return !r.cond(v)
	}
	v, _ := r.eval(n, fr, y)
	return r.cond(v)
}

func (r *Ref) cond(c V) bool {
	b, ok := c.(bool)
	if !ok {
		e := &RefErr{Class: EType, Op: "cond", Vals: []V{c}}
		if IsNil(c) {
			e.Alt = ENil
		}
		panic(e)
	}
	return b
}

func (r *Ref) lookup(n *rn, fr *Frame) V {
	name := n.name
	switch n.res {
	case 1:
		v, ok := fr.slots[name]
		if !ok {
			v = Nil{}
		}
		if fr.twin != nil {
			lv, ok := fr.twin.slots[name]
			if !ok {
				lv = Nil{}
			}
			if !Same(lv, v) {
				panic(ambiguous{"iterator-sees-loop-writes: " + name})
			}
		}
		return v
	case 2:
		if fr.written[name] {
			panic(ambiguous{"read-before-definition: " + name})
		}
		cf := fr.closure
		if cf == nil {
			return Nil{}
		}
		v, ok := cf.slots[name]
		if !ok {
			v = Nil{}
		}
		if cf.twin != nil {
			lv, ok := cf.twin.slots[name]
			if !ok {
				lv = Nil{}
			}
			if !Same(lv, v) {
				panic(ambiguous{"iterator-sees-loop-writes (closure): " + name})
			}
		}
		return v
	}
	if fr != nil {
		if fr.written[name] {
			panic(ambiguous{"read-before-definition: " + name})
		}
		if fr.closure != nil && fr.closure.written[name] {
			panic(ambiguous{"captured-after-closure: " + name})
		}
	}
	v, ok := r.globals[name]
	if !ok {
		return Nil{}
	}
	return v
}

func (r *Ref) assign(name string, v V, fr *Frame) {
	if fr == nil {
		r.globals[name] = v
		return
	}
	fr.slots[name] = v
	fr.written[name] = true
}

// Global returns the current binding of a global name (Nil{} if unbound).
func (r *Ref) Global(name string) V {
	v, ok := r.globals[name]
	if !ok {
		return Nil{}
	}
	return v
}

// GlobalNames lists the bound global names.
func (r *Ref) GlobalNames() []string {
	res := []string{}
	for k := range r.globals {
		res = append(res, k)
	}
	return res
}

func (r *Ref) call(f V, args []V, y yh, name string) V {
	fn, ok := f.(*Fn)
	if !ok {
		e := &RefErr{Class: EType, Op: "call", Vals: []V{f}}
		if IsNil(f) {
			e.Alt = ENil
		}
		panic(e)
	}
	if len(fn.Params) != len(args) {
		panic(&RefErr{Class: EArity, Op: "call", Vals: []V{f}})
	}
	if fn.Native != "" {
		nfr := &Frame{slots: map[string]V{}}
		for i, p := range fn.Params {
			nfr.slots[p] = args[i]
		}
		// the frame stays in place when the native fails: the report shows it
		c := r.cur
		c.frames = append(c.frames, &callRec{name: name, params: fn.Params, fr: nfr})
		v := r.native(fn, args)
		c.frames = c.frames[:len(c.frames)-1]
		return v
	}
	fr := &Frame{slots: map[string]V{}, written: map[string]bool{}, closure: fn.closure}
	keys := paramKeys(fn.Params)
	for i, p := range keys {
		fr.slots[p] = args[i]
		fr.written[p] = true
	}
	r.depth++
	if r.depth > r.MaxDepth {
		r.MaxDepth = r.depth
	}
	c := r.cur
	c.frames = append(c.frames, &callRec{name: name, params: keys, fr: fr})
	v, _ := r.eval(fn.body, fr, y)
	c.frames = c.frames[:len(c.frames)-1]
	r.depth--
	return v
}

// paramKeys names the frame slots of the parameters: a repeated parameter
// name refers to its last occurrence, the shadowed ones keep a slot of their
// own (which no name can reach, but an error report lists).
func paramKeys(params []string) []string {
	keys := make([]string, len(params))
	for i, p := range params {
		keys[i] = p
		for _, q := range params[i+1:] {
			if q == p {
				keys[i] = fmt.Sprintf("%s %d", p, i)
				break
			}
		}
	}
	return keys
}

func (r *Ref) native(fn *Fn, args []V) V {
	{
		switch fn.Native {
		case "write":
			r.out.WriteString(Str(args[0]))
			return Nil{}
		case "toa":
			return Str(args[0])
		case "exit":
			code := 255
			if i, ok := args[0].(int); ok {
				code = i
			}
			panic(exitReq{code})
		case "read":
			if len(r.Stdin) == 0 {
				panic(&RefErr{Class: ERead, Op: "read"})
			}
			l := r.Stdin[0]
			r.Stdin = r.Stdin[1:]
			return l
		case "aton":
			s, ok := args[0].(string)
			if !ok {
				e := &RefErr{Class: EType, Op: "aton", Vals: []V{args[0]}}
				if IsNil(args[0]) {
					e.Alt = ENil
				}
				panic(e)
			}
			if i, err := strconv.Atoi(s); err == nil {
				return i
			}
			if f, err := strconv.ParseFloat(s, 64); err == nil {
				return f
			}
			panic(&RefErr{Class: EConv, Op: "aton", Vals: []V{args[0]}})
		}
		panic("ref: native " + fn.Native)
	}
}

func (r *Ref) evalFor(n *rn, fr *Frame, y yh) (V, bool) {
	k := len(n.vars)
	nexts := make([]func() (V, bool), k)
	stops := make([]func(), k)
	started := 0
	defer func() {
		for _, s := range stops {
			if s != nil {
				s()
			}
		}
		r.genDepth -= started
	}()
	mk := func(j int) {
		it := n.kids[j]
		parent := r.cur
		seq := func(yield func(V) bool) {
			defer func() {
				if x := recover(); x != nil {
					if e, ok := x.(*RefErr); ok {
						r.snapshot(e)
					}
					if _, ok := x.(abandon); !ok {
						panic(x)
					}
				}
			}()
			child := &ctx{parent: parent}
			r.cur = child
			// the iterator expression runs on a snapshot of the frame
			var ifr *Frame
			if fr != nil {
				ifr = &Frame{slots: map[string]V{}, written: map[string]bool{}, closure: fr.closure, twin: fr}
				for k, v := range fr.slots {
					ifr.slots[k] = v
				}
				for k, v := range fr.written {
					ifr.written[k] = v
				}
				if len(parent.frames) > 0 {
					top := parent.frames[len(parent.frames)-1]
					child.frames = append(child.frames, &callRec{name: top.name, params: top.params, fr: ifr})
				}
			}
			r.eval(it, ifr, func(v V) {
				r.cur = parent
				if !yield(v) {
					panic(abandon{})
				}
				r.Resumes++
				r.cur = child
			})
			r.cur = parent
		}
		nexts[j], stops[j] = iter.Pull(seq)
		started++
		r.genDepth++
		if r.genDepth > r.MaxGen {
			r.MaxGen = r.genDepth
		}
	}
	var last V = Nil{}
	for {
		for j := 0; j < k; j++ {
			if nexts[j] == nil {
				mk(j)
			}
			v, ok := nexts[j]()
			if !ok {
				return last, false
			}
			if IsNil(v) {
				panic(&RefErr{Class: ENil, Op: "mov", Vals: []V{v}})
			}
			r.assign(n.vars[j], v, fr)
		}
		v, ret := r.eval(n.kids[k], fr, y)
		if ret {
			return v, true
		}
		last = v
	}
}
