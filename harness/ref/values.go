package ref

import (
	"fmt"
	"strconv"
	"strings"
)

// The value algebra of the Readme, written independently of types/value.
// Operators panic with *RefErr for documented runtime errors.

// IsNil tells whether v is the absent value.
func IsNil(v V) bool { _, ok := v.(Nil); return ok }

// Same is structural identity (NaN equals NaN, functions by identity).
func Same(a, b V) bool {
	switch a := a.(type) {
	case *Fn:
		bf, ok := b.(*Fn)
		return ok && a == bf
	case Arr:
		bb, ok := b.(Arr)
		if !ok || len(a) != len(bb) {
			return false
		}
		for i := range a {
			if !Same(a[i], bb[i]) {
				return false
			}
		}
		return true
	case float64:
		bf, ok := b.(float64)
		return ok && (a == bf || (a != a && bf != bf))
	default:
		return a == b
	}
}

// Equiv is Same, except that any two functions are equivalent.
func Equiv(a, b V) bool {
	switch a := a.(type) {
	case *Fn:
		_, ok := b.(*Fn)
		return ok
	case Arr:
		bb, ok := b.(Arr)
		if !ok || len(a) != len(bb) {
			return false
		}
		for i := range a {
			if !Equiv(a[i], bb[i]) {
				return false
			}
		}
		return true
	default:
		return Same(a, b)
	}
}

// Str renders a value as write / toa do.
func Str(v V) string {
	switch v := v.(type) {
	case Nil:
		return "nil"
	case int:
		return strconv.Itoa(v)
	case float64:
		return fmt.Sprint(v)
	case bool:
		return strconv.FormatBool(v)
	case string:
		return v
	case *Fn:
		return "function"
	case Arr:
		parts := make([]string, 0, len(v))
		for _, e := range v {
			parts = append(parts, Str(e))
		}
		return "[" + strings.Join(parts, ", ") + "]"
	}
	panic(fmt.Sprintf("ref.Str: %T", v))
}

// Display renders a value as the REPL shows a result (strings quoted).
func Display(v V) string {
	if s, ok := v.(string); ok {
		return "\"" + s + "\""
	}
	return Str(v)
}

// Kind names the type of a value.
func Kind(v V) string {
	switch v.(type) {
	case Nil:
		return "nil"
	case int:
		return "int"
	case float64:
		return "float"
	case bool:
		return "bool"
	case string:
		return "string"
	case *Fn:
		return "function"
	case Arr:
		return "array"
	}
	return "?"
}

// ShiftPinned tells whether the description pins the result of a shift: counts
// 0..63 on a non-negative left operand. Outside of that only "an int" is required.
func ShiftPinned(a, b V) bool {
	x, ok1 := a.(int)
	y, ok2 := b.(int)
	return ok1 && ok2 && x >= 0 && y >= 0 && y <= 63
}

func opErr(op string, a, b V) *RefErr {
	if IsNil(a) || IsNil(b) {
		return &RefErr{Class: ENil, Op: op, Vals: []V{a, b}}
	}
	return &RefErr{Class: EType, Op: op, Vals: []V{a, b}}
}

// BinOp applies a binary operator.
func BinOp(op string, a, b V) V {
	switch op {
	case "+", "-", "*", "/":
		switch x := a.(type) {
		case int:
			switch y := b.(type) {
			case int:
				switch op {
				case "+":
					return x + y
				case "-":
					return x - y
				case "*":
					return x * y
				default:
					if y == 0 {
						panic(&RefErr{Class: EZero, Op: op, Vals: []V{a, b}})
					}
					if y == -1 {
						return -x
					}
					return x / y
				}
			case float64:
				return farith(op, float64(x), y)
			}
		case float64:
			switch y := b.(type) {
			case int:
				return farith(op, x, float64(y))
			case float64:
				return farith(op, x, y)
			}
		case string:
			if y, ok := b.(string); ok && op == "+" {
				return x + y
			}
		case Arr:
			if y, ok := b.(Arr); ok && op == "+" {
				res := make(Arr, 0, len(x)+len(y))
				res = append(res, x...)
				return append(res, y...)
			}
		}
	case "%":
		if x, ok := a.(int); ok {
			if y, ok := b.(int); ok {
				if y == 0 {
					panic(&RefErr{Class: EZero, Op: op, Vals: []V{a, b}})
				}
				if y == -1 {
					return 0
				}
				return x % y
			}
		}
	case "<", ">", "<=", ">=":
		xi, xok := a.(int)
		yi, yok := b.(int)
		if xok && yok {
			switch op {
			case "<":
				return xi < yi
			case ">":
				return xi > yi
			case "<=":
				return xi <= yi
			default:
				return xi >= yi
			}
		}
		var x, y float64
		if xok {
			x = float64(xi)
		} else if xf, ok := a.(float64); ok {
			x, xok = xf, true
		}
		if yok {
			y = float64(yi)
		} else if yf, ok := b.(float64); ok {
			y, yok = yf, true
		}
		if xok && yok {
			switch op {
			case "<":
				return x < y
			case ">":
				return x > y
			case "<=":
				return x <= y
			default:
				return x >= y
			}
		}
	case "&", "&&", "|", "||":
		and := op[0] == '&'
		if x, ok := a.(int); ok {
			if y, ok := b.(int); ok {
				if and {
					return x & y
				}
				return x | y
			}
		}
		if x, ok := a.(bool); ok {
			if y, ok := b.(bool); ok {
				if and {
					return x && y
				}
				return x || y
			}
		}
	case "<<", ">>":
		if x, ok := a.(int); ok {
			if y, ok := b.(int); ok {
				// pinned for 0 <= y <= 63 and x >= 0 only (see ShiftPinned)
				if y < 0 || y > 63 {
					return 0
				}
				if op == "<<" {
					return int(uint64(x) << uint(y))
				}
				return int(uint64(x) >> uint(y))
			}
		}
	case "==", "!=":
		eq := weakEq(a, b, a, b)
		if op == "!=" {
			return !eq
		}
		return eq
	default:
		panic("ref: binop " + op)
	}
	panic(opErr(op, a, b))
}

func farith(op string, x, y float64) V {
	switch op {
	case "+":
		return x + y
	case "-":
		return x - y
	case "*":
		return x * y
	}
	return x / y
}

// weakEq is language equality; ta, tb are the top-level operands (for the report).
func weakEq(a, b, ta, tb V) bool {
	if IsNil(a) || IsNil(b) {
		panic(&RefErr{Class: ENil, Op: "==", Vals: []V{ta, tb}})
	}
	switch x := a.(type) {
	case int:
		switch y := b.(type) {
		case int:
			return x == y
		case float64:
			return float64(x) == y
		}
	case float64:
		switch y := b.(type) {
		case int:
			return x == float64(y)
		case float64:
			return x == y
		}
	case bool:
		if y, ok := b.(bool); ok {
			return x == y
		}
	case string:
		if y, ok := b.(string); ok {
			return x == y
		}
	case Arr:
		if y, ok := b.(Arr); ok {
			if len(x) != len(y) {
				return false
			}
			for i := range x {
				if !weakEq(x[i], y[i], ta, tb) {
					return false
				}
			}
			return true
		}
	}
	return false
}

// UnOp applies a unary operator.
func UnOp(op string, t V) V {
	switch op {
	case "-":
		// -x is defined as -1 * x
		defer func() {
			if x := recover(); x != nil {
				if e, ok := x.(*RefErr); ok {
					e.Op = "-"
				}
				panic(x)
			}
		}()
		return BinOp("*", -1, t)
	case "#":
		switch x := t.(type) {
		case string:
			return len(x)
		case Arr:
			return len(x)
		}
	case "!":
		if x, ok := t.(bool); ok {
			return !x
		}
	case "~":
		if x, ok := t.(int); ok {
			return ^x
		}
	}
	if IsNil(t) {
		panic(&RefErr{Class: ENil, Op: op, Vals: []V{t}})
	}
	panic(&RefErr{Class: EType, Op: op, Vals: []V{t}})
}

// Index is a[i] or a[i:j].
func Index(a V, ix ...V) V {
	all := append([]V{a}, ix...)
	ii := []int{}
	for _, i := range ix {
		switch x := i.(type) {
		case int:
			ii = append(ii, x)
		case Nil:
			panic(&RefErr{Class: ENil, Op: "index", Vals: all})
		default:
			panic(&RefErr{Class: EType, Op: "index", Vals: all})
		}
	}
	var n int
	switch x := a.(type) {
	case string:
		n = len(x)
	case Arr:
		n = len(x)
	case Nil:
		// indexing an absent value: the description says calculating with nil is
		// an error without naming the class for this operation
		panic(&RefErr{Class: EType, Alt: ENil, Op: "index", Vals: all})
	default:
		panic(&RefErr{Class: EType, Op: "index", Vals: all})
	}
	if len(ii) == 1 {
		if ii[0] < 0 || ii[0] >= n {
			panic(&RefErr{Class: EIndex, Op: "index", Vals: all})
		}
		if s, ok := a.(string); ok {
			return string(s[ii[0]])
		}
		return a.(Arr)[ii[0]]
	}
	if ii[0] < 0 || ii[0] > n || ii[1] < ii[0] || ii[1] > n {
		panic(&RefErr{Class: EIndex, Op: "index", Vals: all})
	}
	if s, ok := a.(string); ok {
		return s[ii[0]:ii[1]]
	}
	return append(Arr{}, a.(Arr)[ii[0]:ii[1]]...)
}

// Try runs f and converts a *RefErr panic into a return value.
func Try(f func() V) (v V, err *RefErr) {
	defer func() {
		if x := recover(); x != nil {
			if e, ok := x.(*RefErr); ok {
				v, err = Nil{}, e
				return
			}
			panic(x)
		}
	}()
	return f(), nil
}
