module verif/harness

go 1.23

require (
	github.com/paulsonkoly/calc v0.0.0
	pgregory.net/rapid v1.3.0
)

require (
	github.com/chzyer/readline v1.5.1 // indirect
	github.com/kamstrup/intmap v0.4.0 // indirect
	golang.org/x/sys v0.0.0-20220310020820-b874c991c1a5 // indirect
)

replace github.com/paulsonkoly/calc => /repo
